import sys, time, threading
import pctctl, coop
from coop import *
from valjean.cosette.task import Task, TaskStatus
from valjean.cosette.depgraph import DepGraph
def mk(outcome, cyclic=False):
    def make(ctl):
        class P(Task):
            def __init__(s, name, ret='ok', deps=None): super().__init__(name, deps=deps); s.ret = ret
            def do(self, env, config):
                ctl.sync(None, 'do:' + self.name)
                if self.ret == 'ok': return {self.name: {'payload': self.name}}, TaskStatus.DONE
                if self.ret == 'raise': raise RuntimeError('x')
                return self.ret
        a = P('a', outcome); x = P('x'); b = P('b', deps=[a])
        d = {a: [b] if cyclic else [], x: [], b: [a]}
        return DepGraph.from_dependency_dictionary(d), None, [a, x, b]
    return make
for label, outcome, cyc in [('ok', 'ok', False), ('raise', 'raise', False), ('None', None, False), ('not-pair', (1, 2, 3), False), ('int', 5, False), ('bad-status', ({}, 'zz'), False), ('bad-update', (7, TaskStatus.DONE), False), ('cycle', 'ok', True)]:
    res = {}
    for seed in range(40):
        before = set(threading.enumerate())
        o = coop.run_controlled(mk(outcome, cyc), seed, 2)
        time.sleep(0.01)
        leaked = [t for t in threading.enumerate() if t not in before and t.is_alive()]
        k = ('deadlock:' + ','.join('%s@%s' % x for x in sorted(o['deadlock']))) if 'deadlock' in o else ('exc:' + type(o['exc']).__name__ if 'exc' in o else 'returned:' + ','.join('%s=%d' % (n, v['status']) for n, v in sorted(o['env'].items())))
        k += ' leaked=%d' % len(leaked)
        res[k] = res.get(k, 0) + 1
        # leaked cooperative threads are parked on semaphores: release them
        for r in o['ctl'].recs.values():
            if not r.finished: r.dead = True; r.sem.release()
    print(label.ljust(11), res)
