import warnings; warnings.simplefilter('ignore')
import logging; logging.disable(logging.CRITICAL)
import itertools, random, collections, traceback
from valjean.cosette.depgraph import DepGraph, DepGraphError
class N:
    def __init__(s, i): s.i = i
    def __repr__(s): return 'n%d' % s.i
    def __lt__(s, o): return s.i < o.i
def reach(edges, nodes):
    r = {n: set(edges[n]) for n in nodes}
    ch = True
    while ch:
        ch = False
        for n in nodes:
            new = set().union(*[r[m] for m in r[n]]) if r[n] else set()
            if not new <= r[n]: r[n] |= new; ch = True
    return r
issues = collections.Counter(); wit = {}
def note(k, w):
    issues[k] += 1; wit.setdefault(k, w)
for n in range(1, 5):
    nodes = [N(i) for i in range(n)]
    pairs = [(a, b) for a in nodes for b in nodes if a is not b]
    for mask in range(1 << len(pairs)):
        edges = {x: set() for x in nodes}
        for k, (a, b) in enumerate(pairs):
            if mask >> k & 1: edges[a].add(b)
        r = reach(edges, nodes)
        cyclic = any(x in r[x] for x in nodes)
        g = DepGraph()
        for x in nodes: g.add_node(x)
        for a in nodes:
            for b in edges[a]: g.add_dependency(a, on=b)
        try:
            ts = g.topological_sort()
            if cyclic: note('topo-no-raise-on-cycle', (n, mask))
            else:
                pos = {id(x): i for i, x in enumerate(ts)}
                if sorted(map(id, ts)) != sorted(map(id, nodes)) or any(pos[id(b)] > pos[id(a)] for a in nodes for b in edges[a]): note('topo-wrong', (n, mask))
        except DepGraphError:
            if not cyclic: note('topo-raise-on-dag', (n, mask))
        if cyclic: continue
        for name in ('transitive_reduction', 'transitive_closure'):
            h = g.copy(); 
            try: getattr(h, name)()
            except Exception as e: note(name + '-raise-' + type(e).__name__, (n, mask)); continue
            he = {x: set(h.dependencies(x)) for x in nodes}
            hr = reach(he, nodes)
            if {k: set(map(id, v)) for k, v in hr.items()} != {k: set(map(id, v)) for k, v in r.items()}: note(name + '-reach-changed', (n, mask, edges, he))
            ne = sum(len(v) for v in he.values())
            if name == 'transitive_closure' and ne != sum(len(v) for v in r.values()): note('closure-not-maximal', (n, mask, edges, he))
            if name == 'transitive_reduction':
                # minimal: no edge a->b with another path a->..->b
                for a in nodes:
                    for b in he[a]:
                        if any(b in hr[c] for c in he[a] if c is not b): note('reduction-not-minimal', (n, mask, edges, he))
            if {k: set(map(id, v)) for k, v in {x: set(g.dependencies(x)) for x in nodes}.items()} != {k: set(map(id, v)) for k, v in edges.items()}: note(name + '-copy-aliased', (n, mask))
        for a in nodes:
            for b in nodes:
                try:
                    d = g.depends(a, b, recurse=True)
                    if d != (b in r[a]): note('depends-recurse-wrong', (n, mask, a, b, edges))
                except Exception as e: note('depends-raise', (n, mask))
print(dict(issues))
for k, v in wit.items(): print(k, v)
