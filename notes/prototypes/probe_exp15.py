import warnings; warnings.simplefilter('ignore')
import logging; logging.disable(logging.CRITICAL)
import numpy as np, random, math, collections, traceback
from scipy import special
from valjean.eponine.dataset import Dataset
from valjean.gavroche.stat_tests.chi2 import TestChi2
from valjean.gavroche.stat_tests.student import TestStudent
issues = collections.Counter(); wit = {}
def note(k, w): issues[k] += 1; wit.setdefault(k, w)
rng = random.Random(1)
for trial in range(4000):
    nd = rng.choice([0, 1, 1, 2, 3]); shape = tuple(rng.randrange(1, 5) for _ in range(nd))
    def arr(f):
        a = np.array([f() for _ in range(int(np.prod(shape)) if shape else 1)], dtype=float).reshape(shape) if shape else np.float64(f())
        return a
    ign = rng.random() < 0.5
    def val(): return rng.choice([0., 1., -2.5, 3.25, rng.uniform(-5, 5)])
    def err(): return rng.choice([0., 0., .5, 1., rng.uniform(0, 2)] + ([] if ign else [np.nan, np.inf]))
    ref = Dataset(arr(val), arr(err)); k = rng.randrange(1, 3)
    dss = [Dataset(arr(val), arr(err)) for _ in range(k)]
    alpha = rng.choice([0.01, 0.05, rng.uniform(1e-6, .99)])
    try:
        t = TestChi2(ref, *dss, name='c', alpha=alpha, ignore_empty=ign); r = t.evaluate(); verdict = bool(r)
    except Exception as e:
        note('raise-' + type(e).__name__, (shape, ign, traceback.format_exc().splitlines()[-3:])); continue
    allok = True
    for i, ds in enumerate(dss):
        v1, e1, v2, e2 = [np.atleast_1d(np.asarray(x, dtype=float)).ravel() for x in (ref.value, ref.error, ds.value, ds.error)]
        used = [not (a == 0 and b == 0) for a, b in zip(e1, e2)] if ign else [True] * len(v1)
        with np.errstate(all='ignore'):
            terms = [float((a - b) ** 2 / (x * x + y * y)) if (x * x + y * y) != 0 else (float('nan') if a == b else float('inf')) for a, b, x, y, u in zip(v1, v2, e1, e2, used) if u]
        exp = math.fsum(t for t in terms) if all(math.isfinite(t) for t in terms) else (float('nan') if any(math.isnan(t) for t in terms) else float('inf'))
        got = float(r.chi2[i]); ndf = int(t.ndf[i])
        if ndf != sum(used): note('ndf', (shape, ign, ndf, sum(used)))
        if not (math.isnan(exp) and math.isnan(got)) and not (exp == got or abs(exp - got) <= 1e-9 * abs(exp)): note('chi2', (shape, ign, exp, got, v1, v2, e1, e2))
        p = float(r.pvalue[i])
        pexp = float(special.gammaincc(ndf / 2, exp / 2)) if ndf > 0 and not math.isnan(exp) else float('nan')
        if not (math.isnan(p) and math.isnan(pexp)) and not abs(p - pexp) <= 1e-8 * max(abs(pexp), 1e-300): note('pvalue', (ndf, exp, p, pexp))
        ok = (pexp > alpha) if not math.isnan(pexp) else False
        allok = allok and ok
    if verdict != allok: note('verdict', (shape, ign, alpha, [float(x) for x in r.pvalue], allok))
print('chi2', dict(issues))
for k, v in list(wit.items())[:6]: print(' ', k, v)
