import warnings; warnings.simplefilter('ignore')
import logging; logging.disable(logging.CRITICAL)
import numpy as np, random, math, collections, traceback, itertools
from collections import OrderedDict
from valjean.eponine.dataset import Dataset
issues = collections.Counter(); wit = {}
def note(k, w): issues[k] += 1; wit.setdefault(k, w)
rng = random.Random(7)
def mkds(shape, kinds=None):
    n = int(np.prod(shape)) if shape else 1
    v = np.array([rng.choice([-3., -1.5, .5, 2., 4., rng.uniform(-9, 9)]) for _ in range(n)]).reshape(shape) if shape else np.float64(rng.uniform(-9, 9))
    e = np.array([rng.choice([0., .1, .5, rng.uniform(0, 2)]) for _ in range(n)]).reshape(shape) if shape else np.float64(rng.uniform(0, 2))
    bins = OrderedDict()
    for i, s in enumerate(shape):
        k = (kinds[i] if kinds else rng.choice('ec'))
        bins['d%d' % i] = np.cumsum(np.array([rng.uniform(.5, 2) for _ in range(s + (k == 'e'))]))
    return Dataset(v, e, bins=bins, name='n', what='w')
def snap(ds): return (ds.value.tobytes() if hasattr(ds.value, 'tobytes') else ds.value, ds.error.tobytes() if hasattr(ds.error, 'tobytes') else ds.error, [(k, v.tobytes()) for k, v in ds.bins.items()], ds.name, ds.what)
def close(a, b): return np.allclose(a, b, rtol=1e-12, atol=0, equal_nan=True)
# C08
for trial in range(4000):
    nd = rng.choice([0, 1, 2, 3]); shape = tuple(rng.randrange(1, 4) for _ in range(nd))
    a = mkds(shape); kinds = ['e' if len(b) == s + 1 else 'c' for b, s in zip(a.bins.values(), shape)]
    b = Dataset(mkds(shape).value, mkds(shape).error, bins=a.bins, name='m', what='z')
    other = rng.choice([b, b, rng.choice([2, -3, 0.5, -1.5]), np.full(shape, rng.choice([2., -2.]))])
    op = rng.choice('+-*/')
    sa, sb = snap(a), snap(b)
    try:
        with np.errstate(all='ignore'):
            r = {'+': lambda: a + other, '-': lambda: a - other, '*': lambda: a * other, '/': lambda: a / other}[op]()
    except Exception as e:
        note('raise-%s-%s' % (op, type(e).__name__), (shape, type(other).__name__)); continue
    ov = other.value if isinstance(other, Dataset) else other; oe = other.error if isinstance(other, Dataset) else None
    with np.errstate(all='ignore'):
        ev = {'+': a.value + ov, '-': a.value - ov, '*': a.value * ov, '/': a.value / ov}[op]
        if oe is not None:
            ee = {'+': np.sqrt(a.error**2 + oe**2), '-': np.sqrt(a.error**2 + oe**2), '*': np.abs(ev) * np.sqrt((a.error / a.value)**2 + (oe / ov)**2), '/': np.abs(ev) * np.sqrt((a.error / a.value)**2 + (oe / ov)**2)}[op]
        else:
            ee = {'+': a.error, '-': a.error, '*': a.error * np.abs(ov), '/': a.error / np.abs(ov)}[op]
    if not np.array_equal(r.value, ev, equal_nan=True): note('value-' + op, 0)
    kind = 'ds' if oe is not None else type(other).__name__
    if oe is not None and op in '*/':
        # relative-error formula undefined where value is 0: compare only where both values nonzero
        m = (a.value != 0) & (ov != 0)
        if not close(np.asarray(r.error)[m] if shape else r.error, np.asarray(ee)[m] if shape else ee): note('error-%s-%s' % (op, kind), (a.value, a.error, ov, oe, r.error, ee))
    elif not close(r.error, ee): note('error-%s-%s' % (op, kind), (op, ov if not isinstance(ov, np.ndarray) else 'arr', r.error, ee))
    if np.any(np.asarray(r.error) < 0): note('neg-error-%s-%s' % (op, kind), 0)
    if r.value.shape != r.error.shape: note('shape', 0)
    if list(r.bins) != list(a.bins) or any(not np.array_equal(r.bins[k], a.bins[k]) for k in a.bins): note('bins', 0)
    if snap(a) != sa or snap(b) != sb: note('operand-modified', op)
    c = a.copy()
    if shape and (np.shares_memory(c.value, a.value) or np.shares_memory(c.error, a.error)): note('copy-shares-value', 0)
    if any(np.shares_memory(c.bins[k], a.bins[k]) for k in a.bins): note('copy-shares-bins', 0)
print('C08', dict(issues)); 
for k, v in list(wit.items())[:6]: print('  ', k, str(v)[:300])
# C09 exhaustive 1-d
issues.clear(); wit.clear(); cnt = 0
for n in range(1, 7):
    for kind in 'ec':
        a = mkds((n,), [kind]); sa = snap(a); bins = a.bins['d0']
        for start, stop, step in itertools.product([None] + list(range(-n - 2, n + 3)), [None] + list(range(-n - 2, n + 3)), [None, 1]):
            sl = slice(start, stop, step); cells = list(range(n))[sl]; cnt += 1
            try: r = a[sl]
            except Exception as e: note('raise-' + type(e).__name__, (n, kind, sl)); continue
            if not np.array_equal(r.value, a.value[sl]) or not np.array_equal(r.error, a.error[sl]): note('value', (n, kind, sl))
            if cells:
                lo, hi = cells[0], cells[-1]
                exp = bins[lo:hi + 2] if kind == 'e' else bins[lo:hi + 1]
                if not np.array_equal(r.bins['d0'], exp): note('bins-%s-%s' % (kind, 'negstart' if (start is not None and start < 0) else 'other'), (n, kind, sl, r.bins['d0'], exp))
            elif r.value.size != 0: note('nonempty', (n, kind, sl))
            if snap(a) != sa: note('orig-modified', 0)
print('C09', cnt, dict(issues))
for k, v in list(wit.items())[:6]: print('  ', k, str(v)[:300])
