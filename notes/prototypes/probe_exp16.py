import warnings; warnings.simplefilter('ignore')
import logging; logging.disable(logging.CRITICAL)
import numpy as np, random, collections, traceback, itertools
from valjean.cosette.task import TaskStatus
from valjean.gavroche.test import Test, TestResult
from valjean.gavroche.diagnostics.stats import (TestStatsTasks, TestStatsTests, TestStatsTestsByLabels, TestOutcome, TestStatsTestsByLabelsException)
class T(Test):
    def __init__(self, name, ok, labels): super().__init__(name=name, labels=labels); self.ok = ok
    def evaluate(self): return R(self)
class R(TestResult):
    def __bool__(self): return self.test.ok
issues = collections.Counter(); wit = {}
def note(k, w): issues[k] += 1; wit.setdefault(k, w)
rng = random.Random(3)
for trial in range(3000):
    ntask = rng.randrange(0, 8); tr = []; allres = []
    for i in range(ntask):
        st = rng.choice(list(TaskStatus))
        d = {'status': st}
        if rng.random() < .8:
            res = []
            for j in range(rng.randrange(0, 4)):
                labels = {k: rng.choice(['a', 'b', 'c']) for k in ('x', 'y', 'z') if rng.random() < .7}
                r = T('t%d_%d' % (i, j), rng.random() < .6, labels).evaluate(); res.append(r); allres.append(r)
            d['result'] = res
        tr.append(('task%d' % rng.randrange(0, 5), d))
    # tasks
    rs = TestStatsTasks(name='s', task_results=tr).evaluate()
    for st in TaskStatus:
        exp = sorted(n for n, d in tr if d['status'] == st); got = sorted(str(x) for x in rs.classify.get(st, []))
        if exp != got: note('tasks-classify', (tr, st))
    if tr and bool(rs) != all(d['status'] == TaskStatus.DONE for _, d in tr): note('tasks-bool', tr)
    # tests
    rt = TestStatsTests(name='s', task_results=tr).evaluate()
    exp_s = sorted(r.test.name for r in allres if r); exp_f = sorted(r.test.name for r in allres if not r); exp_m = sorted(n for n, d in tr if 'result' not in d)
    if sorted(str(x) for x in rt.classify.get(TestOutcome.SUCCESS, [])) != exp_s: note('tests-success', tr)
    if sorted(str(x) for x in rt.classify.get(TestOutcome.FAILURE, [])) != exp_f: note('tests-failure', tr)
    if sorted(str(x) for x in rt.classify.get(TestOutcome.MISSING, [])) != exp_m: note('tests-missing', tr)
    if (allres or exp_m) and bool(rt) != (all(bool(r) for r in allres) and not exp_m and bool(allres)): note('tests-bool', (bool(rt), exp_s, exp_f, exp_m))
    # by labels
    by = tuple(rng.sample(['x', 'y', 'z'], rng.randrange(1, 4)))
    try:
        rl = TestStatsTestsByLabels(name='s', task_results=tr, by_labels=by).evaluate()
    except TestStatsTestsByLabelsException:
        if all(any(l in r.test.labels for r in allres) for l in by): note('bylabels-unexpected-exc', (by, [r.test.labels for r in allres]))
        continue
    except Exception as e:
        note('bylabels-raise-' + type(e).__name__, traceback.format_exc().splitlines()[-3:]); continue
    if not all(any(l in r.test.labels for r in allres) for l in by): note('bylabels-missing-exc', (by,))
    groups = collections.defaultdict(lambda: [0, 0])
    for r in allres:
        if all(l in r.test.labels for l in by): groups[tuple(r.test.labels[l] for l in by)][0 if r else 1] += 1
    got = {c['labels']: (c['OK'], c['KO'], c['total']) for c in rl.classify}
    exp = {k: (v[0], v[1], v[0] + v[1]) for k, v in groups.items()}
    if got != exp: note('bylabels-counts', (by, got, exp))
    if len(got) != len(rl.classify): note('bylabels-dup-rows', rl.classify)
    if rl.nb_missing_labels() != len(allres) - sum(v[2] for v in exp.values()): note('bylabels-missing', (rl.nb_missing_labels(),))
    if bool(rl) != all(v[1] == 0 for v in exp.values()): note('bylabels-bool', (got,))
print('stats', dict(issues))
for k, v in list(wit.items())[:6]: print(' ', k, str(v)[:600])
