import warnings; warnings.simplefilter('ignore')
import logging; logging.disable(logging.CRITICAL)
import numpy as np, random, math, collections, traceback
from scipy import special
from valjean.eponine.dataset import Dataset
from valjean.gavroche.stat_tests.student import TestStudent
from valjean.gavroche.stat_tests.bonferroni import TestBonferroni, TestHolmBonferroni
issues = collections.Counter(); wit = {}
def note(k, w): issues[k] += 1; wit.setdefault(k, w)
rng = random.Random(2)
def p2(t, ndf):
    t = abs(t)
    if math.isnan(t): return float('nan')
    if ndf is None: return float(special.erfc(t / math.sqrt(2)))
    if math.isinf(t): return 0.0
    return float(special.betainc(ndf / 2, .5, ndf / (ndf + t * t)))
near = 0; decided = 0
for trial in range(6000):
    nd = rng.choice([0, 1, 1, 2, 3]); shape = tuple(rng.randrange(1, 5) for _ in range(nd))
    n = int(np.prod(shape)) if shape else 1
    def arr(f): return np.array([f() for _ in range(n)], dtype=float).reshape(shape) if shape else np.float64(f())
    def val(): return rng.choice([0., 1., -2.5, rng.uniform(-5, 5), rng.uniform(-5, 5), np.nan if rng.random() < .1 else 2., np.inf if rng.random() < .03 else -1.])
    def err(): return rng.choice([0., .5, 1., rng.uniform(0, 2), rng.uniform(0, 2), np.nan if rng.random() < .1 else .3, np.inf if rng.random() < .03 else .2])
    ref = Dataset(arr(val), arr(err)); k = rng.randrange(1, 4); dss = [Dataset(arr(val), arr(err)) for _ in range(k)]
    alpha = rng.choice([0.01, 0.05, 10 ** rng.uniform(-10, -0.001)]); ndf = rng.choice([None, None, 1, 2, 5, 30, rng.randrange(1, 10 ** 6)])
    try:
        T = TestStudent(ref, *dss, name='s', alpha=alpha, ndf=ndf); r = T.evaluate(); verdict = bool(r); orc = r.oracles()
    except Exception as e:
        note('raise-' + type(e).__name__, (shape, traceback.format_exc().splitlines()[-3:])); continue
    exp_all = True
    for i, ds in enumerate(dss):
        v1, e1, v2, e2 = [np.atleast_1d(np.asarray(x, dtype=float)).ravel() for x in (ref.value, ref.error, ds.value, ds.error)]
        o = np.atleast_1d(np.asarray(orc[i])).ravel(); tst = np.atleast_1d(np.asarray(r.tstud[i], dtype=float)).ravel()
        for j in range(n):
            with np.errstate(all='ignore'):
                d = v1[j] - v2[j]; s = math.sqrt(e1[j] ** 2 + e2[j] ** 2) if not (math.isnan(e1[j]) or math.isnan(e2[j])) else float('nan')
                if d == 0 and s == 0: exp = True; cls = '0/0'
                elif math.isnan(v1[j]) and math.isnan(v2[j]): exp = None; cls = 'bothnan'
                elif d == 0 and math.isnan(e1[j]) and math.isnan(e2[j]): exp = None; cls = 'bothnanerr'
                else:
                    t = d / s if s != 0 else (math.copysign(float('inf'), d) if not math.isnan(d) else float('nan'))
                    p = p2(t, ndf)
                    if math.isnan(p): exp = False; cls = 'nan'
                    elif abs(p - alpha) <= 1e-6 * alpha: exp = None; near += 1; cls = 'tie'
                    else: exp = p > alpha; cls = 'num'
            if exp is None: 
                if not bool(o[j]): exp_all = exp_all and False  # follow code for don't-care
                continue
            decided += 1
            if bool(o[j]) != exp: note('oracle-' + cls, (alpha, ndf, v1[j], e1[j], v2[j], e2[j], tst[j], bool(o[j]), exp))
            exp_all = exp_all and exp
    if verdict != exp_all: note('verdict', (shape, alpha, ndf))
    if verdict != all(bool(np.all(x)) for x in orc): note('verdict-vs-oracles', 0)
    # corrections
    if shape:
        for cls_ in (TestBonferroni, TestHolmBonferroni):
            try:
                rb = cls_(test=T, name='b', alpha=alpha).evaluate()
                if verdict and not bool(rb): note(cls_.__name__ + '-fails-when-student-passes', (shape, alpha, ndf))
                for i in range(k):
                    pv = np.asarray(r.pvalue[i]).ravel(); fl = np.asarray(rb.rejected_null_hyp[i]).ravel()
                    if np.isnan(pv).any() and not fl[np.isnan(pv)].all(): note(cls_.__name__ + '-nan-accepted', 0)
            except Exception as e: note(cls_.__name__ + '-raise-' + type(e).__name__, traceback.format_exc().splitlines()[-3:])
print('student decided', decided, 'near', near, dict(issues))
for k, v in list(wit.items())[:8]: print(' ', k, str(v)[:400])
