import warnings; warnings.simplefilter('ignore')
import logging; logging.disable(logging.CRITICAL)
import random, collections, traceback
from valjean.cosette.depgraph import DepGraph, DepGraphError
class N:
    def __init__(s, i): s.i = i
    def __repr__(s): return 'n%d' % s.i
issues = collections.Counter(); wit = {}
def note(k, w): issues[k] += 1; wit.setdefault(k, w)
def check(g, m, hist):
    nodes, edges = m
    try:
        if sorted(map(id, g.nodes())) != sorted(map(id, nodes)): note('nodes', hist[:]); return
        if len(g) != len(nodes): note('len', hist[:])
        for x in nodes:
            if set(map(id, g.dependencies(x))) != set(id(b) for (a, b) in edges if a is x): note('deps', hist[:]); return
            if sorted(map(id, g.dependees(x))) != sorted(id(a) for (a, b) in edges if b is x): note('dependees', hist[:]); return
        d = dict(g)
        if len(d) != len(nodes): note('dict', hist[:])
    except Exception as e:
        note('raise-' + type(e).__name__, (hist[:], traceback.format_exc().splitlines()[-2:]))
rng = random.Random(5)
for trial in range(3000):
    pool = [N(i) for i in range(6)]
    g = DepGraph(); m = ([], set()); hist = []
    others = []
    for step in range(rng.randrange(1, 30)):
        op = rng.choice(['add_node', 'add_dep', 'add_dep', 'rm_node', 'rm_dep', 'copy', 'merge', 'invert', 'swapcopy'])
        nodes, edges = m
        try:
            if op == 'add_node':
                x = rng.choice(pool); g.add_node(x)
                if not any(x is y for y in nodes): nodes.append(x)
            elif op == 'add_dep':
                a, b = rng.sample(pool, 2); g.add_dependency(a, on=b)
                for x in (a, b):
                    if not any(x is y for y in nodes): nodes.append(x)
                edges.add((a, b))
            elif op == 'rm_node':
                x = rng.choice(pool); g.remove_node(x)
                m = ([y for y in nodes if y is not x], {(a, b) for (a, b) in edges if a is not x and b is not x})
            elif op == 'rm_dep' and edges:
                a, b = rng.choice(sorted(edges, key=lambda e: (e[0].i, e[1].i))); g.remove_dependency(a, b); edges.discard((a, b))
            elif op == 'copy':
                c = g.copy(); cm = (list(nodes), set(edges)); others.append((c, cm, 'copy@%d' % step))
            elif op == 'swapcopy':
                c = g.copy(); cm = (list(nodes), set(edges)); others.append((g, m, 'orig@%d' % step)); g, m = c, cm
            elif op == 'invert':
                c = g.invert(); cm = (list(nodes), {(b, a) for (a, b) in edges}); others.append((c, cm, 'inv@%d' % step))
            elif op == 'merge' and others:
                o, om, _ = rng.choice(others)
                g.merge(o)
                for x in om[0]:
                    if not any(x is y for y in m[0]): m[0].append(x)
                m[1].update(om[1])
            hist.append(op)
        except Exception as e:
            note('op-raise-%s-%s' % (op, type(e).__name__), (hist[:], traceback.format_exc().splitlines()[-2:])); break
        check(g, m, hist)
        for o, om, tag in others: check(o, om, hist + [tag])
print(dict(issues))
for k, v in list(wit.items())[:6]: print(k, v)
