'''Prototype: cooperative schedule controller driving the real QueueScheduling.'''
import threading, random, sys, time, hashlib, warnings
warnings.simplefilter('ignore')
import logging; logging.disable(logging.CRITICAL)
_real_threading = threading

class Deadlock(BaseException): pass

class Ctl:
    def __init__(self, rng):
        self.rng = rng; self.mx = _real_threading.Lock()
        self.recs = {}          # ident -> rec
        self.trace = []; self.deadlock = None; self.choices = []
    class Rec:
        def __init__(self, name): self.name = name; self.sem = _real_threading.Semaphore(0); self.pred = (lambda: True); self.finished = False; self.parked = False
    def register_current(self, name):
        r = Ctl.Rec(name); self.recs[_real_threading.get_ident()] = r; return r
    def me(self): return self.recs[_real_threading.get_ident()]
    def _pick(self):
        live = [r for r in self.recs.values() if not r.finished and r.parked]
        en = [r for r in live if r.pred()]
        if not en:
            if live:
                self.deadlock = [(r.name, getattr(r, 'label', '?')) for r in live]
                for r in live: r.dead = True; r.sem.release()
            return None
        r = self.rng.choice(sorted(en, key=lambda r: r.name))
        self.choices.append(r.name)
        return r
    def sync(self, pred=None, label=''):
        me = self.me()
        with self.mx:
            me.pred = pred or (lambda: True); me.label = label; me.parked = True
            nxt = self._pick()
            if nxt is not None: nxt.parked = False; nxt.sem.release()
        me.sem.acquire()
        if getattr(me, 'dead', False): raise Deadlock(label)
        self.trace.append((me.name, label))
    def finish(self):
        me = self.me()
        with self.mx:
            me.finished = True
            nxt = self._pick()
            if nxt is not None: nxt.parked = False; nxt.sem.release()

class CoopRLock:
    def __init__(self, ctl, name='L'): self.ctl = ctl; self.owner = None; self.count = 0; self.name = name
    def acquire(self):
        me = self.ctl.me()
        self.ctl.sync(lambda: self.owner is None or self.owner is me, 'acq:'+self.name)
        self.owner = me; self.count += 1; return True
    def release(self):
        self.count -= 1
        if self.count == 0: self.owner = None
        self.ctl.sync(None, 'rel:'+self.name)
    __enter__ = acquire
    def __exit__(self, *a): self.release()

class CoopCondition(CoopRLock):
    def __init__(self, ctl): super().__init__(ctl, 'cv'); self.waiters = []
    def wait(self):
        me = self.ctl.me(); saved = self.count; self.count = 0; self.owner = None
        me.notified = False; self.waiters.append(me)
        self.ctl.sync(lambda: me.notified and self.owner is None, 'cv.wait')
        self.owner = me; self.count = saved
    def notify_all(self):
        for w in self.waiters: w.notified = True
        self.waiters = []
        self.ctl.sync(None, 'cv.notify')

class CoopQueue:
    def __init__(self, ctl): self.ctl = ctl; self.items = []; self.unfinished = 0
    def put(self, x): self.items.append(x); self.unfinished += 1; self.ctl.sync(None, 'q.put')
    def get(self):
        self.ctl.sync(lambda: bool(self.items), 'q.get'); return self.items.pop(0)
    def task_done(self): self.unfinished -= 1; self.ctl.sync(None, 'q.done')
    def join(self): self.ctl.sync(lambda: self.unfinished == 0, 'q.join')

def run_controlled(make, seed, n_workers):
    import valjean.cosette.backends.queue as qmod
    from valjean.cosette.env import Env
    from valjean.cosette.scheduler import Scheduler
    ctl = Ctl(random.Random(seed))
    class Shim:
        def __getattr__(self, k): return getattr(_real_threading, k)
        def Condition(self): return CoopCondition(ctl)
    WT = qmod.QueueScheduling.WorkerThread
    orig = (qmod.threading, WT.run, WT.start, WT.join)
    clock = [0]
    class TimeShim:
        def time(self): clock[0] += 1; return float(clock[0])
    orig_time = qmod.time
    def run(self):
        self._rec.sem.acquire()
        try:
            if getattr(self._rec, 'dead', False): return
            orig[1](self)
        except Deadlock: pass
        except BaseException as e: self._died = e
        finally: ctl.finish()
    def start(self):
        r = Ctl.Rec('w%d' % len([x for x in ctl.recs.values() if x.name.startswith('w')])); r.parked = True; self._rec = r
        orig[2](self)
        ctl.recs[self.ident] = r
        ctl.sync(None, 'start')
    def join(self, timeout=None):
        ctl.sync(lambda: self._rec.finished, 'join'); orig[3](self)
    qmod.threading = Shim(); qmod.time = TimeShim(); WT.run, WT.start, WT.join = run, start, join
    out = {}
    try:
        hard, soft, probes = make(ctl)
        backend = qmod.QueueScheduling(n_workers); backend.queue = CoopQueue(ctl)
        env = Env(); env.lock = CoopRLock(ctl, 'env')
        ctl.register_current('M')
        s = Scheduler(hard_graph=hard, soft_graph=soft, backend=backend)
        try: out['env'] = s.schedule(env=env)
        except Deadlock as d: out['deadlock'] = ctl.deadlock
        except BaseException as e: out['exc'] = e
    finally:
        qmod.threading, WT.run, WT.start, WT.join = orig; qmod.time = orig_time
    out['trace'] = ctl.trace; out['choices'] = ctl.choices; out['ctl'] = ctl
    return out

if __name__ == '__main__':
    from valjean.cosette.task import Task, TaskStatus
    from valjean.cosette.depgraph import DepGraph
    viol = []
    def make(ctl):
        class P(Task):
            def do(self, env, config):
                ctl.sync(None, 'do:'+self.name)
                for d in self.depends_on:
                    if env.get_status(d) == TaskStatus.DONE and env[d.name].get('payload') != d.name: viol.append((self.name, d.name))
                return {self.name: {'payload': self.name}}, TaskStatus.DONE
        a = P('a'); x = P('x'); b = P('b', deps=[a])
        return DepGraph.from_dependency_dictionary({a: [], x: [], b: [a]}), None, [a, x, b]
    t0 = time.time(); seen = set(); nv = 0; first = None
    N = int(sys.argv[1]) if len(sys.argv) > 1 else 300
    for seed in range(N):
        before = len(viol)
        o = run_controlled(make, seed, 2)
        if 'deadlock' in o or 'exc' in o: print(seed, o.get('deadlock'), o.get('exc')); break
        seen.add(hashlib.sha1(repr(o['trace']).encode()).hexdigest())
        if len(viol) > before:
            nv += 1
            if first is None: first = (seed, len(o['choices']))
    print('runs', N, 'distinct traces', len(seen), 'violating runs', nv, 'first', first, 'time', round(time.time()-t0, 2), 'live threads', threading.active_count())
