import warnings; warnings.simplefilter('ignore')
import logging; logging.disable(logging.CRITICAL)
import random, collections, traceback, copy
from valjean.eponine.browser import Browser, NoItemBrowserError, TooManyItemsBrowserError
issues = collections.Counter(); wit = {}
def note(k, w): issues[k] += 1; wit.setdefault(k, w)
rng = random.Random(3)
KEYS = ['a', 'b', 'c', 'd']; VALS = [1, 1.0, True, 0, False, 'x', 'y', ('t', 1), None, 2, 'a']
def strip(it): return {k: v for k, v in it.items() if k != 'index'}
for trial in range(5000):
    dk = rng.choice(['results', 'results', 'data'])
    items = []
    for i in range(rng.randrange(0, 8)):
        it = {k: rng.choice(VALS) for k in KEYS if rng.random() < .6}
        it[dk] = [i, {'n': i}] if dk != 'results' or rng.random() < .5 else ('res', i)
        items.append(it)
    orig = copy.deepcopy(items)
    try:
        b = Browser(items, data_key=dk, global_vars={'g': 1})
    except Exception as e:
        note('ctor-' + type(e).__name__, items); continue
    kw = {k: rng.choice(VALS) for k in KEYS + ['zz'] if rng.random() < .3}
    inc = tuple(k for k in KEYS + ['zz'] if rng.random() < .2); exc = tuple(k for k in KEYS + ['zz'] if rng.random() < .2)
    exp = [it for it in items if all(k in it and (it[k] is v or it[k] == v) for k, v in kw.items()) and all(k in it for k in inc) and not any(k in it for k in exc)]
    try:
        sub = b.filter_by(include=inc, exclude=exc, **kw)
        got = [strip(x) for x in sub.content]
        if got != exp: note('filter-content', (items, kw, inc, exc, got, exp))
        if sub.globals != {'g': 1}: note('filter-globals', 0)
        if sub.data_key != dk: note('filter-datakey', (dk, sub.data_key))
        if any(g[dk] is not e[dk] for g, e in zip(sub.content, exp) if len(got) == len(exp)): note('filter-data-identity', 0)
    except Exception as e:
        note('filter-raise-' + type(e).__name__, (dk, traceback.format_exc().splitlines()[-2:]))
    try:
        one = b.select_by(include=inc, exclude=exc, **kw)
        if len(exp) != 1 or strip(one) != exp[0]: note('select-wrong', (kw, exp, one))
    except NoItemBrowserError:
        if len(exp) != 0: note('select-noitem-wrong', (kw, exp))
    except TooManyItemsBrowserError:
        if len(exp) < 2: note('select-toomany-wrong', (kw, exp))
    except Exception as e: note('select-raise-' + type(e).__name__, traceback.format_exc().splitlines()[-2:])
    if items != orig: note('input-modified', 0)
    if [strip(x) for x in b.content] != orig: note('browser-modified', 0)
print('browser', {k: v for k, v in issues.items()})
for k, v in list(wit.items())[:8]: print(' ', k, str(v)[:500])
