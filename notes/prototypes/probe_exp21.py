import sys, warnings, os, time, collections, traceback, hashlib, json
warnings.simplefilter('ignore')
import logging; logging.disable(logging.CRITICAL)
from valjean.eponine.tripoli4.parse import Parser, ParserException
src = sys.argv[1]; step = int(sys.argv[2])
data = open(src, 'rb').read()
tmp = '/tmp/scratch/trunc_%d.res' % os.getpid()
out = collections.Counter(); wit = {}
def digest(r):
    b = r.to_browser(); h = hashlib.sha1()
    for it in b.content:
        for k in sorted(it):
            if k == 'results':
                for rk in sorted(it[k]):
                    ds = it[k][rk]
                    if hasattr(ds, 'value'):
                        h.update(rk.encode()); h.update(repr(ds.value.tolist() if hasattr(ds.value, 'tolist') else ds.value).encode()); h.update(repr(ds.error.tolist() if hasattr(ds.error, 'tolist') else ds.error).encode())
                        h.update(repr([(a, b.tolist()) for a, b in ds.bins.items()]).encode())
                    else: h.update(repr((rk, ds)).encode())
            else: h.update(repr((k, it[k])).encode())
    return h.hexdigest()
full = {}
try:
    P = Parser(src)
    for bn in P.batch_numbers():
        try: full[bn] = digest(P.parse_from_number(bn))
        except ParserException: full[bn] = 'PE'
except ParserException: pass
memo = {}
offs = set(range(0, len(data) + 1, step))
# all offsets in lines the scanner interprets
pos = 0
KEYS = ('BATCH', 'number of tasks is', 'PACKET_LENGTH', 'initialization time', 'Edition after batch number', 'number of batches used', 'batch number :', 'number of batch', 'time')
for line in data.split(b'\n'):
    l = line.decode('utf-8', 'ignore')
    if any(k in l for k in KEYS) and len(line) < 200: offs.update(range(pos, pos + len(line) + 2))
    pos += len(line) + 1
offs = sorted(o for o in offs if o <= len(data))
for cut in offs:
    with open(tmp, 'wb') as f: f.write(data[:cut])
    try:
        p = Parser(tmp)
        bn = p.batch_numbers()[-1]
        key = hashlib.sha1(p.scan_res[bn].encode()).hexdigest()
        try:
            if key in memo: k = memo[key]
            else:
                d = digest(p.parse_from_number(bn))
                k = 'parse-ok-same' if full.get(bn) == d else 'parse-ok-DIFFERENT'
                if k.endswith('DIFFERENT'): wit.setdefault(k, (cut, bn))
                memo[key] = k
        except ParserException: k = 'parse-ParserException'
        except Exception as e:
            k = 'parse-' + type(e).__name__; wit.setdefault(k + ':' + traceback.format_exc().splitlines()[-2].strip()[:80], cut)
    except ParserException: k = 'scan-ParserException'
    except Exception as e:
        k = 'scan-' + type(e).__name__; wit.setdefault(k + ':' + traceback.format_exc().splitlines()[-3].strip()[:90], cut)
    out[k] += 1
os.unlink(tmp)
print(json.dumps({'file': os.path.basename(src), 'n': len(offs), 'out': out, 'wit': wit}))
