import sys, time, hashlib, random
import coop
from coop import *
class PctCtl(Ctl):
    def __init__(self, rng, depth=3, est_steps=150):
        super().__init__(rng); self.prio = {}; self.step = 0
        self.change = set(rng.randrange(1, est_steps) for _ in range(depth-1)); self.low = 0
    def _pick(self):
        live = [r for r in self.recs.values() if not r.finished and r.parked]
        en = [r for r in live if r.pred()]
        if not en:
            if live:
                self.deadlock = [(r.name, getattr(r, 'label', '?')) for r in live]
                for r in live: r.dead = True; r.sem.release()
            return None
        for r in en:
            if r.name not in self.prio: self.prio[r.name] = self.rng.random() + 1
        r = max(en, key=lambda r: self.prio[r.name])
        self.step += 1
        if self.step in self.change:
            self.low -= 1; self.prio[r.name] = self.low
            r = max(en, key=lambda r: self.prio[r.name])
        self.choices.append(r.name)
        return r
coop.Ctl = PctCtl
