import warnings; warnings.simplefilter('ignore')
import logging; logging.disable(logging.CRITICAL)
import numpy as np, random, collections, traceback, pickle, copy, hashlib, enum
from collections import OrderedDict
exec(open('exp19.py').read().split("for trial in range(3000):")[0].split("issues = collections.Counter()")[0])
from valjean.javert.representation import Representation, TableRepresenter, FullTableRepresenter, PlotRepresenter, FullRepresenter
from valjean.javert.rst import Rst
from valjean.javert import plot_repr
from valjean.fingerprint import fingerprint
issues = collections.Counter(); wit = {}
def note(k, w): issues[k] += 1; wit.setdefault(k, w)
rng = random.Random(11); f = RstFormatter()
exec("def mk" + open('exp19.py').read().split("def mk")[1].split("for trial in range(3000):")[0])
def digest(o, seen=None, depth=0):
    seen = seen if seen is not None else {}
    if id(o) in seen: return ('cycle', seen[id(o)])
    if isinstance(o, np.ndarray): return ('nd', str(o.dtype), o.shape, o.tobytes(), getattr(o, 'mask', None) is not None and np.ma.getmaskarray(o).tobytes())
    if isinstance(o, (np.generic, int, float, str, bytes, bool, type(None), enum.Enum)): return (type(o).__name__, repr(o))
    seen[id(o)] = len(seen)
    if isinstance(o, dict): return ('dict', type(o).__name__, tuple((digest(k, seen), digest(v, seen)) for k, v in o.items()))
    if isinstance(o, (list, tuple)): return (type(o).__name__, tuple(digest(x, seen) for x in o))
    if isinstance(o, (set, frozenset)): return ('set', tuple(sorted(repr(digest(x, seen)) for x in o)))
    if hasattr(o, '__dict__'): return ('obj', type(o).__name__, tuple((k, digest(v, seen)) for k, v in sorted(vars(o).items())))
    return ('other', repr(o))
OPS = {
 'bool': lambda r: bool(r), 'repr': lambda r: repr(r),
 'oracles': lambda r: r.oracles() if hasattr(r, 'oracles') else None,
 'nb_rejected': lambda r: (r.nb_rejected, r.rejected_proportion) if hasattr(r, 'nb_rejected') else None,
 'test_pvalue': lambda r: r.test_pvalue() if hasattr(r, 'test_pvalue') else None,
 'per_key': lambda r: (r.per_key(), r.only_failed_comparisons()) if hasattr(r, 'per_key') else None,
 'nb_missing': lambda r: r.nb_missing_labels() if hasattr(r, 'nb_missing_labels') else None,
 'fingerprint': lambda r: fingerprint(r.test),
 'pickle': lambda r: pickle.loads(pickle.dumps(r)), 'deepcopy': lambda r: copy.deepcopy(r),
}
for v in Verbosity:
    OPS['table/' + v.name] = (lambda v: lambda r: Representation(TableRepresenter(), v)(r))(v)
    OPS['fulltable/' + v.name] = (lambda v: lambda r: Representation(FullTableRepresenter(), v)(r))(v)
    OPS['plot/' + v.name] = (lambda v: lambda r: Representation(PlotRepresenter(), v)(r))(v)
    OPS['rstfmt/' + v.name] = (lambda v: lambda r: Rst(Representation(FullTableRepresenter(), v)).format_result(r))(v)
names = sorted(OPS)
for trial in range(1500):
    try: kind, shape, res = results()
    except Exception as e: continue
    d0 = digest(res); b0 = bool(res)
    for step in range(8):
        op = rng.choice(names)
        try: OPS[op](res)
        except Exception as e:
            note('op-raise %s %s %s' % (kind, op.split('/')[0], type(e).__name__), (shape, traceback.format_exc().splitlines()[-1][:200])); continue
        if digest(res) != d0 or bool(res) != b0:
            note('CHANGED %s by %s (verdict %s->%s)' % (kind, op.split('/')[0], b0, bool(res)), shape); d0 = digest(res); b0 = bool(res)
print({k: v for k, v in sorted(issues.items())})
for k, v in list(wit.items())[:14]: print('  ', k, str(v)[:300])
