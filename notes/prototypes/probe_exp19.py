import warnings; warnings.simplefilter('ignore')
import logging; logging.disable(logging.CRITICAL)
import numpy as np, random, collections, traceback, io
from collections import OrderedDict
from docutils.core import publish_doctree
from docutils import nodes
from valjean.eponine.dataset import Dataset
from valjean.cosette.task import TaskStatus
from valjean.gavroche.test import TestEqual, TestApproxEqual, TestResultFailed
from valjean.gavroche.stat_tests.student import TestStudent
from valjean.gavroche.stat_tests.bonferroni import TestBonferroni, TestHolmBonferroni
from valjean.gavroche.diagnostics.metadata import TestMetadata
from valjean.gavroche.diagnostics.stats import TestStatsTasks, TestStatsTests, TestStatsTestsByLabels
from valjean.javert.representation import Representation, TableRepresenter, FullTableRepresenter
from valjean.javert.verbosity import Verbosity
from valjean.javert.rst import RstFormatter
issues = collections.Counter(); wit = {}
def note(k, w): issues[k] += 1; wit.setdefault(k, w)
rng = random.Random(4); f = RstFormatter()
def mk(shape, fail):
    n = int(np.prod(shape)) if shape else 1
    bins = OrderedDict((('d%d' % i), np.arange(s + (i % 2)) * 1.5) for i, s in enumerate(shape))
    v = np.arange(n, dtype=float).reshape(shape) + 1 if shape else np.float64(1.)
    e = np.full(shape, .1) if shape else np.float64(.1)
    ref = Dataset(v, e, bins=bins, name='ref')
    v2 = np.array(v, dtype=float, copy=True)
    if shape:
        idx = rng.sample(range(n), k=min(n, fail))
        for i in idx: v2.ravel()[i] += 10
    elif fail: v2 = np.float64(v2 + 10)
    return ref, Dataset(v2, e.copy() if shape else e, bins=bins, name='cmp')
def results():
    shape = rng.choice([(), (1,), (3,), (5,), (2, 3), (2, 1, 3)]); fail = rng.choice([0, 0, 1, 2, 100])
    a, b = mk(shape, fail); kind = rng.choice(['eq', 'ap', 'st', 'bo', 'hb', 'md', 'tk', 'ts', 'bl', 'fa'])
    if kind == 'eq': return kind, shape, TestEqual(a, b, name='t').evaluate()
    if kind == 'ap': return kind, shape, TestApproxEqual(a, b, name='t').evaluate()
    if kind == 'st': return kind, shape, TestStudent(a, b, name='t').evaluate()
    if kind == 'bo': return kind, shape, TestBonferroni(test=TestStudent(a, b, name='t'), name='b').evaluate()
    if kind == 'hb': return kind, shape, TestHolmBonferroni(test=TestStudent(a, b, name='t'), name='b').evaluate()
    if kind == 'md': return kind, shape, TestMetadata({'s1': {'k': 1, 'j': 2}, 's2': {'k': 1 if not fail else 3, 'j': 2}}, name='m').evaluate()
    sts = [rng.choice([TaskStatus.DONE, TaskStatus.DONE, TaskStatus.FAILED, TaskStatus.SKIPPED]) for _ in range(rng.randrange(1, 5))]
    inner = [TestEqual(*mk((3,), rng.choice([0, 1])), name='i%d' % i, labels={'x': rng.choice('ab'), 'y': rng.choice('cd')}).evaluate() for i in range(rng.randrange(1, 4))]
    tr = [('task%d' % i, {'status': s, 'result': inner if i == 0 else []}) for i, s in enumerate(sts)]
    if kind == 'tk': return kind, shape, TestStatsTasks(name='s', task_results=tr).evaluate()
    if kind == 'ts': return kind, shape, TestStatsTests(name='s', task_results=tr).evaluate()
    if kind == 'bl': return kind, shape, TestStatsTestsByLabels(name='s', task_results=tr, by_labels=('x', 'y')).evaluate()
    return kind, shape, TestResultFailed(TestEqual(a, b, name='t'), 'some message')
for trial in range(3000):
    try: kind, shape, res = results()
    except Exception as e: note('build-' + type(e).__name__, traceback.format_exc().splitlines()[-3:]); continue
    truth = bool(res)
    for verb in (Verbosity.SUMMARY, Verbosity.DEFAULT, Verbosity.INTERMEDIATE, Verbosity.FULL_DETAILS, Verbosity.DEVELOPMENT):
        for rep in (TableRepresenter(), FullTableRepresenter()):
            tag = '%s/%s/%s/%s' % (kind, 'pass' if truth else 'fail', verb.name, type(rep).__name__[:4])
            try:
                temps = Representation(rep, verb)(res)
                txt = '\n'.join(str(f.template(t)) for t in temps)
            except Exception as e:
                note('render-raise ' + kind + ' ' + type(e).__name__, (shape, verb.name, traceback.format_exc().splitlines()[-2:])); continue
            w = io.StringIO()
            try: doc = publish_doctree(txt, settings_overrides={'report_level': 2, 'halt_level': 5, 'warning_stream': w})
            except Exception as e: note('docutils-raise ' + kind, txt[:300]); continue
            if w.getvalue(): note('rst-warning ' + kind, (verb.name, w.getvalue()[:300], txt[:500]))
            marks = [n.astext() for n in doc.traverse(nodes.inline) if 'hl' in n['classes']]
            sub_false = kind in ('bo', 'hb') and isinstance(rep, FullTableRepresenter) and not bool(res.first_test_res)
            if truth and marks and not sub_false: note('mark-on-pass ' + tag, (shape, marks[:3]))
            if not truth and not marks: note('no-mark-on-fail ' + tag, (shape, txt[:300]))
print({k: v for k, v in sorted(issues.items())})
for k, v in list(wit.items())[:12]: print(' ', k, str(v)[:700])
