#!/venv/bin/python
'''Sensitivity testing helper (never touches /repo).

  tools/mut.py PROP FILE 'old text' 'new text' [--tier quick]
  tools/mut.py PROP --patch some.diff

copies /repo/valjean to a scratch directory, applies the change there, runs
./check PROP against the copy (evidence and replays go to the scratch
directory too) and prints the verdict.  The scratch copy is removed.'''
import os
import shutil
import subprocess
import sys
import tempfile

HERE = os.path.dirname(os.path.dirname(os.path.abspath(__file__)))


def main():
    args = sys.argv[1:]
    tier = 'quick'
    if '--tier' in args:
        i = args.index('--tier')
        tier = args[i + 1]
        del args[i:i + 2]
    props = args[0].split(',')
    tmp = tempfile.mkdtemp(prefix='vfmut-')
    try:
        for sub in ('valjean', 'conftest.py', 'pyproject.toml'):
            src = os.path.join('/repo', sub)
            dst = os.path.join(tmp, sub)
            if os.path.isdir(src):
                shutil.copytree(src, dst, ignore=shutil.ignore_patterns(
                    '__pycache__'))
            else:
                shutil.copy(src, dst)
        for sub in ('tests', 'doc'):
            os.symlink(os.path.join('/repo', sub), os.path.join(tmp, sub))
        if args[1] == '--patch':
            subprocess.run(['patch', '-p1', '-s', '-i',
                            os.path.abspath(args[2])], cwd=tmp, check=True)
        else:
            path = os.path.join(tmp, args[1])
            text = open(path).read()
            if args[2] not in text:
                print('MUT: old text not found')
                return 3
            open(path, 'w').write(text.replace(args[2], args[3], 1))
        env = dict(os.environ, VERIF_REPO=tmp,
                   VERIF_EVIDENCE_DIR=os.path.join(tmp, 'evidence'),
                   VERIF_REPLAY_DIR=os.path.join(tmp, 'replays'))
        rcs = []
        for prop in props:
            res = subprocess.run([os.path.join(HERE, 'check'), prop, '--tier',
                                  tier], env=env, capture_output=True,
                                 text=True)
            lines = [ln for ln in res.stdout.splitlines()
                     if ln.startswith(('VIOLATION', '  mechanism', 'INCONCL',
                                       'KNOWN'))]
            print(f'MUT {prop}: exit={res.returncode}')
            for line in lines[:8]:
                print('   ', line[:260])
            if res.returncode not in (0, 1):
                print(res.stdout[-1500:], res.stderr[-1500:])
            rcs.append(res.returncode)
        return 0 if all(r == 1 for r in rcs) else 1
    finally:
        shutil.rmtree(tmp, ignore_errors=True)


if __name__ == '__main__':
    sys.exit(main())
