#!/venv/bin/python
'''Print (markdown) the table of the seeded breaking changes kept under
/verif/seeded: what each needs in order to manifest and which checks catch it.
With --write, replace the section between the SEEDED-TABLE markers of
DESIGN.md.'''
import glob
import json
import os
import re
import sys

HERE = os.path.dirname(os.path.dirname(os.path.abspath(__file__)))


def first_sentence(text, limit=230):
    text = ' '.join(text.split())
    return text if len(text) <= limit else text[:limit - 1].rstrip() + '…'


def needs_of(notes):
    '''The "what it needs to manifest" paragraph of notes.md, shortened.'''
    mat = re.search(r'(?is)(what (it|exactly it) needs[^\n]*\n+)(.*?)(\n#|\n\*\*|\Z)',
                    notes)
    if mat:
        return first_sentence(mat.group(3).replace('*', '').replace('`', ''))
    return ''


def main():
    rows = []
    for meta_path in sorted(glob.glob(os.path.join(HERE, 'seeded', '*',
                                                   'meta.json')),
                            key=lambda p: (p.split('/')[-2].split('_')[0],
                                           int(p.split('/')[-2]
                                               .split('_')[1]))):
        meta = json.load(open(meta_path))
        sid = meta['id']
        notes_path = os.path.join(os.path.dirname(meta_path), 'notes.md')
        notes = open(notes_path).read() if os.path.exists(notes_path) else ''
        title = ''
        for line in notes.splitlines():
            if line.strip().startswith('#'):
                title = line.strip('# ').strip()
                break
        what = meta.get('summary') or title
        det = meta.get('detection', {})
        caught = [p for p, d in det.items() if d.get('detected')]
        missed = [p for p, d in det.items() if not d.get('detected')]
        mech = ''
        for prop in caught:
            mechs = det[prop].get('mechanisms') or []
            if mechs:
                mech = mechs[0].split(' count=')[0].replace('mechanism=', '')
                break
        conf = meta.get('confirmed', {})
        base = conf.get('baseline_stable_tests_pass_on_patched_tree')
        rows.append((sid, first_sentence(what.replace('|', '/'), 160),
                     first_sentence(meta.get('needs') or needs_of(notes),
                                    200).replace('|', '/'),
                     ', '.join(caught) or '**none**',
                     mech.replace('|', '/'),
                     'yes' if base else ('no' if base is False else '?')))
    lines = ['| id | change | needs | caught by (quick tier) | first '
             'mechanism reported | baseline suite still passes |',
             '|---|---|---|---|---|---|']
    for row in rows:
        lines.append('| ' + ' | '.join(row) + ' |')
    ncaught = sum(1 for r in rows if r[3] != '**none**')
    lines.append('')
    lines.append(f'{len(rows)} seeded changes kept, {ncaught} caught by at '
                 'least one quick check.')
    text = '\n'.join(lines)
    if '--write' in sys.argv:
        path = os.path.join(HERE, 'DESIGN.md')
        doc = open(path).read()
        beg, end = '<!-- SEEDED-TABLE-BEGIN -->', '<!-- SEEDED-TABLE-END -->'
        if beg in doc:
            doc = doc[:doc.index(beg) + len(beg)] + '\n' + text + '\n' + \
                doc[doc.index(end):]
            open(path, 'w').write(doc)
            print('DESIGN.md updated')
        else:
            print('markers not found')
    else:
        print(text)


if __name__ == '__main__':
    main()
