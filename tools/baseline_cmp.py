#!/venv/bin/python
'''Compare a junit xml of the repository's suite with BASELINE.json stable_pass.
usage: tools/baseline_cmp.py junit.xml'''
import json
import sys
import xml.etree.ElementTree as ET

stable = set(json.load(open('/root/.vp/BASELINE.json'))['stable_pass'])
root = ET.parse(sys.argv[1]).getroot()
passed, failed = set(), set()
for case in root.iter('testcase'):
    name = f"{case.get('classname')}::{case.get('name')}"
    bad = any(ch.tag in ('failure', 'error', 'skipped') for ch in case)
    (failed if bad else passed).add(name)
missing = sorted(stable - passed)
print(f'stable {len(stable)}  passed-now {len(passed)}  '
      f'stable-not-passing {len(missing)}')
for name in missing[:40]:
    print('  ', name)
sys.exit(1 if missing else 0)
