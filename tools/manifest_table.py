# one chk(...) per property: id, level category, level text, level note
# (trusted base), technique, DESIGN.md reference
chk('C08', 'exploration',
    'Post-conditions (plain numpy value, first-order error formula recomputed '
    'element-wise in Python floats, bins of the left operand, operand digests '
    'unchanged, copies share no memory and do not alias) evaluated after every '
    'operation of thousands of random operation chains on the real Dataset '
    'class, with an icontract well-formedness invariant installed on the class.'
    ' Held on the executions observed; sampling, not proof.',
    'numpy arithmetic trusted; relative tolerance 1e-12; chains stop when a '
    'value becomes non-finite (outside the quantifier)',
    'runtime monitoring: per-operation post-conditions + icontract class '
    'invariant + deep snapshots over random operation chains',
    'DESIGN.md section 4 (C08)')
