# one chk(...) per property: id, level category, level text, level note
# (trusted base), technique, DESIGN.md reference
chk('C08', 'exploration',
    'Post-conditions (plain numpy value, first-order error formula recomputed '
    'element-wise in Python floats, bins of the left operand, operand digests '
    'unchanged, copies share no memory and do not alias) evaluated after every '
    'operation of thousands of random operation chains on the real Dataset '
    'class, with an icontract well-formedness invariant installed on the class.'
    ' Held on the executions observed; sampling, not proof.',
    'numpy arithmetic trusted; relative tolerance 1e-12; chains stop when a '
    'value becomes non-finite (outside the quantifier)',
    'runtime monitoring: per-operation post-conditions + icontract class '
    'invariant + deep snapshots over random operation chains',
    'DESIGN.md section 4 (C08)')
chk('C09', 'exploration',
    'Every unit-step slice (start, stop in {None, -n-2..n+2}) of every 1-d '
    'dataset of length 1..6 (1..9 thorough) with edges or centres is executed '
    'on the real class and compared with index arithmetic (complete '
    'enumeration of that space), plus random products of such slices on 2-4-d '
    'datasets, each followed by squeeze; well-formedness by icontract '
    'invariant, originals by deep digest.',
    'numpy basic slicing trusted for the value/error arrays; empty selections '
    'only checked for emptiness',
    'runtime monitoring: result vs index-arithmetic oracle on exhaustively '
    'enumerated 1-d slices and random N-d slices, icontract invariant',
    'DESIGN.md section 4 (C09)')
chk('C05', 'exploration',
    'Every bin of thousands of generated Student comparisons (differences '
    'placed around the critical value, zero errors, NaN/inf on one or both '
    'sides, alpha from 1e-40 to 1, ndf None..1e6, 1-4 datasets, shapes () to '
    '4-d) is decided independently from the exact two-sided tail '
    '(scipy.special; mpmath at 50 digits on a sample and near the level) and '
    'compared with oracles(), the verdict, the p-values and test_pvalue(); '
    'four metamorphic relations (swap, 2^k rescaling, growing difference, '
    'shrinking error) are checked on the real evaluations; a test object is '
    'evaluated again after one of its datasets was changed and must describe '
    'the new data; the result of the previous case is re-read after each '
    'evaluation (state shared between objects).',
    'scipy.special / mpmath trusted as the law; a relative band of 1e-6 around '
    'the level is not decided; generated values only (no proof over all floats)',
    'runtime monitoring: independent per-bin oracle (exact tail) + metamorphic '
    'relations over generated comparisons',
    'DESIGN.md section 4 (C05)')
chk('C06', 'exploration',
    'Flags of the real static methods and of the full '
    'TestBonferroni/TestHolmBonferroni(TestStudent) path are compared with the '
    'definitions evaluated in plain floats (tie-group aware for Holm): '
    'complete enumeration of all arrays of 1..3 (thorough 1..4) bins over an '
    'alphabet made of 0, 1, NaN and every threshold level/j with both float '
    'neighbours, in every shape, for two levels; random arrays with ties / '
    'NaN / values around the per-rank thresholds; positions under permutation '
    'and reshape; inclusion and pass-through relations.',
    'the overall level of the full path is the one the test object reports '
    '(alpha/2); ties in Holm accepted under any rank assignment',
    'runtime monitoring: reference-definition oracle over exhaustively '
    'enumerated small arrays and random arrays, metamorphic position checks',
    'DESIGN.md section 4 (C06)')
chk('C07', 'exploration',
    'Statistic, degrees of freedom, p-value and verdict of thousands of '
    'generated chi-square comparisons (arbitrary zero-error patterns, both '
    'option values, NaN/inf with the option off, 1-3 datasets, shapes () to '
    '4-d) are compared with math.fsum of the per-bin terms, the count of used '
    'bins and the upper tail Q(k/2,x/2) (scipy.special; mpmath on a sample and '
    'near the level); each statistic is re-evaluated on a random permutation '
    'of the bins.',
    'scipy.special.gammaincc / mpmath trusted as the law; statistic compared '
    'at rel. 1e-9; relative band of 1e-6 around alpha not decided',
    'runtime monitoring: independent recomputation oracle + permutation '
    'metamorphic relation over generated comparisons',
    'DESIGN.md section 4 (C07)')
chk('C16', 'exploration',
    'A node/edge-set reference model is updated alongside every public edit '
    'of the real DepGraph in random histories (<= 40 steps: add/remove '
    'node/edge, self-dependency, merge, +, +=, copy, invert, graft, in-place '
    'closure and reduction; in a third of the histories nested graphs -- two '
    'equal empty ones, a flat one and its look-alike -- are nodes too) and '
    'all public queries are '
    'compared after every step; earlier copies and derived graphs are '
    're-checked against their frozen models; nested graphs (empty, one, many '
    'nodes, two levels, the same or a look-alike sub-graph object in several '
    'places) are flattened and reachability among plain nodes is '
    'compared with a virtual start/end-node reference, the original and '
    'every nested graph being re-compared with their models afterwards; every digraph on <= 4 '
    'labelled nodes and every DAG on 5 (thorough: every digraph on 5, for '
    'cycle detection) is built two ways and its topological sort, reduction, '
    'closure and depends() are compared with brute-force reachability; the '
    'RList reverse-index invariant is evaluated at every comparison point and, '
    'in dedicated shards, as an icontract class invariant.',
    'identity-keyed nodes; algorithms only claimed on acyclic graphs; sampling '
    'for histories, complete enumeration for the small-graph part',
    'runtime monitoring: executable reference model compared after every '
    'operation + exhaustive small-graph enumeration + icontract invariant',
    'DESIGN.md section 4 (C16)')
chk('C17', 'exploration',
    'Every filter_by / select_by / merge executed on the real Browser in '
    'random chains (items over small pools of keys and hashable values '
    'including 1/1.0/True, tuples, None; three data keys; hashable and '
    'unhashable data; present and absent keys and values; include / exclude) '
    'is compared with a naive scan of a reference list: items, order, '
    'identity of data objects, data key, globals, keys(), available_values(), '
    'documented exceptions; input dictionaries, globals and source browsers '
    'are digested before and after.',
    'the reserved key "index" is not user metadata; sampling only',
    'runtime monitoring: naive-scan reference model compared after every '
    'operation + deep snapshots of inputs',
    'DESIGN.md section 4 (C17)')
chk('C18', 'exploration',
    'The classifications produced by the real TestStatsTasks, TestStatsTests '
    'and TestStatsTestsByLabels on thousands of generated collections (any '
    'statuses, with/without result lists of real TestResult objects with '
    'chosen verdicts and string label dictionaries, repeated names, 1-3 '
    'requested labels in both orders) are compared with a recount made from '
    'the inputs: multiset of names per status/outcome, OK+KO=total per '
    'combination, conservation of the total, missing count, verdicts, '
    'documented exception for unknown labels; inputs digested.',
    'label values are strings; result lists hold TestResult objects; vacuous '
    'summaries not claimed',
    'runtime monitoring: recount oracle over generated collections',
    'DESIGN.md section 4 (C18)')
chk('C01', 'exploration',
    'Probe tasks record, at the first instruction of do(), the status of every '
    'hard and soft dependency readable from the environment they were handed '
    'and compare the update each DONE dependency returned with what is '
    'readable at that moment, while the real QueueScheduling runs (a) under a '
    'cooperative schedule controller that serialises the real threads and '
    'chooses the next one at every lock / condition / queue / thread '
    'operation (seeded random walk and PCT depth 2-4 over random DAGs with '
    'every outcome kind and 1-16 workers; every schedule with at most 2 '
    'preemptions of the 2-3-task shapes; nested sub-graphs flattened by '
    'the Scheduler, empty ones bridging hard and soft edges; backend and '
    'task objects re-used for another graph; falsy task objects; updates '
    'with a second top-level key; one schedule per case with a share of the source lines '
    'of queue.py / env.py as extra scheduling points) and (b) with the real '
    'primitives '
    'under a 1 us switch interval, delays between critical sections and '
    'sys.monitoring line-level yield injection.',
    'schedules are sampled (thousands of distinct traces per run, exhaustive '
    'only for the small shapes up to 2 preemptions); the controller switches '
    'at synchronisation operations and probe yield points only',
    'runtime monitoring: probe at task start + cooperative schedule '
    'controller (PCT / random walk / bounded DFS) + stress layer with yield '
    'injection',
    'DESIGN.md section 4 (C01)')
chk('C02', 'exploration',
    'The final status map and the per-task execution counters of every run of '
    'the real scheduler are compared with a sequential reference scheduler '
    '(skipped iff a hard dependency failed or was skipped, otherwise executed '
    'exactly once, DONE/FAILED by what the task returned, malformed results '
    'FAILED); every generated (graph, failing subset) is executed under at '
    'least nine controlled schedules over three worker counts and a share in '
    'the stress layer, so that all schedules of a case are required to give '
    'the one reference map; malformed results include falsy non-mappings, '
    'plain numbers equal to non-final statuses, unmergeable updates and '
    'SystemExit; nested sub-graphs, more than 100 simultaneously ready tasks '
    'per worker, sub-graphs inside the soft graph, the same backend and task '
    'objects reused for another graph, and runs with the loggers at DEBUG '
    'level are part of the workload.',
    'schedules are sampled; non-final statuses returned by tasks are outside '
    'the statement',
    'runtime monitoring: execution counters + final status map vs executable '
    'reference model under a cooperative schedule controller and stress',
    'DESIGN.md section 4 (C02)')
chk('C03', 'exploration',
    'Under the cooperative controller a deadlock is observed exactly (a '
    'thread is unfinished and no parked thread is enabled); after schedule() '
    'returned or raised, the remaining threads are run to quiescence and the '
    'census of unfinished workers and the content of the work queue are '
    'taken. Workload: DAGs and cyclic graphs (self loop, 2-cycle, cycle '
    'behind a DAG, cycle through soft edges), every outcome kind including '
    'malformed and non-final results, initial environments with DONE / FAILED '
    '/ SKIPPED entries, 1-16 workers, random-walk and PCT schedules; the same '
    'census (at the instant the call comes back, and after quiescence) with '
    'real primitives under stress, the same Scheduler used for a second run, '
    'the same backend used again after a call that raised, 1030 ready tasks '
    'for one worker, nested graphs that are cyclic through (empty) '
    'sub-graphs with the construction of the Scheduler bounded by a '
    'PY_START step budget, falsy task objects, '
    'every schedule with at most two preemptions of tiny graphs, and driver '
    'child processes that only call schedule() and must exit.',
    'termination is decided as absence of deadlock at the controller\'s '
    'scheduling points plus a thread census; wall-clock timeouts alone are '
    'inconclusive',
    'runtime monitoring: exact deadlock detection by a cooperative schedule '
    'controller + thread/queue census + driver processes',
    'DESIGN.md section 4 (C03)')
chk('C04', 'exploration',
    'Histories of 2-6 runs of the real scheduler over an evolving job (tasks '
    'fail, recover, lose their persisted entry, are newly added), the '
    'environment carried over the documented way (only DONE entries merged; '
    'also through the real write_env/read_env files), each run under a '
    'controlled schedule with a logical clock carried across runs (half of '
    'these histories keep the task objects and the backend object from run '
    'to run), a share '
    'in the stress layer with real clocks, and a share through the real '
    'RunCommand.execute (generated job file, valjean.env files, runs that '
    'ask only for a part of the job); after every run invariant I1 (no '
    'DONE task older than a DONE dependency or with a FAILED/SKIPPED hard '
    'dependency) and I2 (a DONE task whose transitive dependencies were DONE '
    'and not re-executed is not executed and its entry digest is unchanged) '
    'are evaluated from the environment, the probes\' per-run execution '
    'counters and deep digests.',
    'histories and schedules are sampled; ties of real clocks accepted (<=)',
    'runtime monitoring: per-run invariants over recorded histories '
    '(execution counters, clocks, entry digests) under a cooperative schedule '
    'controller and stress',
    'DESIGN.md section 4 (C04)')
chk('C14', 'fault_enumeration',
    'Random environments (all statuses, with/without output directory, '
    'payloads of nested containers, arrays, datasets) are written with the '
    'real write_env; every written file is truncated at every byte offset '
    '(complete enumeration), emptied, deleted, bit-flipped and replaced by '
    'random or foreign pickles, made unopenable (directory in its place, '
    'output directory replaced by a file, name longer than NAME_MAX), and '
    'read back with the real read_env and '
    'Env.from_file: reading must never raise, a task comes back exactly when '
    'its file is intact and was written DONE, with the entry written (deep '
    'digest). Histories of 2-5 writes with crashes during the write (an '
    'exception raised from inside a payload while pickling, a child process '
    'that os._exit()s in the middle of pickle.dump, truncation) interleaved '
    'with reads are checked against a model of what every file holds; task '
    'names with path separators and the empty name; a task whose output '
    'directory cannot be written to must not prevent the others from being '
    'persisted.',
    'truncation = writer killed at any point (to_file empties the file then '
    'streams the pickle); for corrupted files that still unpickle only "no '
    'exception" is required; pickle itself is trusted',
    'runtime monitoring: exhaustive fault enumeration (every truncation '
    'offset) + seeded corruption + crash-during-write histories vs a file '
    'content model',
    'DESIGN.md section 4 (C14)')
chk('C12', 'exploration',
    'Every rendering produced by the real representers (Table, FullTable; '
    'thorough: Full with plots) and the real rst formatter for generated '
    'results of every kind, shape, failing pattern and non-silent verbosity '
    'is parsed back with docutils: marks (hl inline nodes / KO) present iff '
    'the result (or a rendered sub-result) is false; no docutils warning; '
    'every table reads back cell by cell as the formatted columns of its '
    'template with the highlight flags at the same rows; in the detailed '
    'tables of dataset comparisons rows are mapped back to bins through '
    'their independently formatted bin labels and the highlighted rows must '
    'be exactly the failing bins with the values / errors of those bins; '
    'sliced, indexed and joined TableTemplates must render as the '
    'corresponding rows of the original; one Rst object formatting several '
    'results in a row must give what a fresh object gives; an icontract '
    'invariant keeps columns and highlights of every TableTemplate the same '
    'size (thorough: also under the repository\'s own javert tests).',
    'docutils trusted as reader; names and messages without rst markup; plot '
    'representers only on datasets without length-1 dimensions',
    'runtime monitoring: docutils read-back oracle over generated results x '
    'verbosities x representers + icontract invariant on TableTemplate',
    'DESIGN.md section 4 (C12)')
chk('C13', 'exploration',
    'A deep canonical digest of the result (verdict, statistics, test, '
    'datasets: attributes, mappings with key order and number, arrays with '
    'dtype/shape/bytes) is taken before and after every operation of random '
    'sequences (<= 12) of read-only operations on generated results of every '
    'kind: bool, repr, oracles, counts, per-key views, table / full-table / '
    'plot / full-plot / full representation and Rst.format_result at every '
    'verbosity, fingerprint, pickle round trip, copy, deepcopy; the test is '
    'evaluated a second time and the two results must have the same digest; '
    'the first cases of every shard are evaluated once more from fresh '
    'objects at the end of the shard (process history); results over '
    'decreasing bins, single-precision data, Student results built without '
    'p-values and names holding rst markup are part of the workload.',
    'digest-based notion of "unchanged"; operations that raise are not '
    'changes',
    'runtime monitoring: deep snapshots around random sequences of read-only '
    'operations',
    'DESIGN.md section 4 (C13)')
chk('C19', 'exploration',
    'RunTask objects with scripted command lines (sh -c scripts writing a '
    'unique line on each stream, touching a marker file and exiting with 0, '
    '1, 2, 127, 255 or killing themselves; missing and non-executable '
    'programs at any position) are executed directly and through the real '
    'scheduler, several tasks at once with 1-4 workers, under names that '
    'include the empty string, a/b, .., NUL, spaces, unicode; the script is '
    'the oracle: marker files say which commands ran, the status, the '
    'recorded return codes, the ordered content of the captured stdout / '
    'stderr files and the directory each task owns are compared with it; '
    'the position of the first failure is enumerated completely for lists '
    'of up to four commands; output with carriage returns is compared byte '
    'for byte; CheckoutTask / BuildTask run with GIT / CMAKE pointed at a '
    'scripted fake tool; one task object executed twice with another '
    'environment and output root; commands killed by the optional timeout.',
    '/bin/sh trusted; when do() raises for a program that cannot be started '
    'only status FAILED through the scheduler is required',
    'runtime monitoring: scripted fault injection (exit codes, signals, '
    'missing executables) with marker-file and captured-output oracles',
    'DESIGN.md section 4 (C19)')
chk('C20', 'exploration',
    'Random report trees (depth up to the five supported levels and one '
    'more, reserved / repeated / nested / dotted / unusable titles, 0-3 '
    'uniquely named results per section, given to the constructor or '
    'appended to sections created empty) are formatted and written with the real '
    'Rst.format_report().write(); the directory is read back: every page is '
    'parsed with docutils and compared with the page set derived from the '
    'tree, the unique text marker of every section and the description and '
    'anchor of every result must appear exactly once and on the right page, '
    'toctree entries and images are resolved on disk (figures written '
    'sequentially or by 1-8 worker subprocesses); every third report is '
    'written a second time elsewhere and the copies compared; a refusal is '
    'legitimate only if an independent model of the page paths finds a real '
    'collision; for unusable titles '
    'and too deep trees the call must raise with the target directory '
    '(snapshot before / after) unchanged; nothing may be written outside the '
    'target.',
    'docutils trusted as reader; toctree entries resolved as Sphinx does; '
    'titles free of markup',
    'runtime monitoring: file-tree and docutils read-back oracle over '
    'generated report trees, directory snapshots around rejected writes',
    'DESIGN.md section 4 (C20)')
chk('C15', 'exploration',
    'Histories of requests to the real argument-injection wrappers (Use '
    'constructor, Use.from_func, using, stacked wrappers, map, task_stats / '
    'test_stats with equal names) and to the real RunTaskFactory.make (with '
    'and without a name, extra arguments, format keywords, dependencies, '
    'soft dependencies, subprocess arguments, two factories) are replayed '
    'against a reference dictionary signature -> task: identical requests '
    'must return the same task, requests with different signatures must not '
    'share a task unless an explicit error is raised; every returned task is '
    'executed on a prepared environment and must return its own function '
    'applied to its own injections / print its own command line, and carry '
    'the requested dependencies; job collection (close_dependency_graph, '
    'check_unique_task_names, collect_tasks on generated job files) is '
    'compared with a plain transitive closure and must reject two tasks with '
    'one name.',
    'functions compared by identity; names carry the history number so that '
    'witnesses replay in a fresh process',
    'runtime monitoring: request histories vs a signature -> task reference '
    'dictionary + behavioural execution of every returned task',
    'DESIGN.md section 4 (C15)')
chk('C11', 'fault_enumeration',
    'Every shipped example listing (24) and two synthetic ones are cut at '
    'byte offsets -- thorough: every byte offset of every listing (about 1.6 '
    'million prefixes); quick: every offset of the listings <= 12 kB, and '
    'for the larger ones every offset inside a sample of each kind of '
    'scanner-interpreted line, every line boundary and a seeded sample -- '
    'and opened with the real Parser; delivered editions are parsed with '
    'parse_from_number. Observed per prefix: the exception class (only '
    'ParserException allowed), a logical step budget counted with '
    'sys.monitoring, and the deep digest of the responses of every parsed '
    'edition against the same edition of the complete listing; memoised '
    'editions are re-parsed later in another order and after failing parses, '
    'a decoy of the same size is opened at the same path before 4 % of the '
    'prefixes, another thread parses the complete listing after the sweep '
    '(hang = no Python function entered for 10 s), and prefixes are repeated '
    'in a fresh process, to expose state carried between parses.',
    'batch_data / run_data (times and counters derived from the whole file) '
    'may differ after a cut; hang = logical step budget; pyparsing trusted',
    'runtime monitoring: exhaustive crash-point enumeration (every byte '
    'offset) with exception-class, step-budget and edition-digest oracles',
    'DESIGN.md section 4 (C11)')
chk('C10', 'exploration',
    'Three monitors on the real readers. (S) synthetic Tripoli-4 listings '
    'written from a known ground truth in the layouts of the shipped '
    'examples (1-4 editions, 1-4 responses, 1-3 zones, energy spectra with '
    'or without time / mu steps, groups printed increasing or decreasing, '
    'integrated and not-converged results, values of both signs and zero; '
    'results on a mesh over several energy ranges with the entropies printed '
    'per range; listings of parallel runs whose scores discard different '
    'numbers of batches) '
    'are parsed by batch number and by index and compared cell by cell '
    '(value = printed token, error = value x sigma% / 100, bins = printed '
    'boundaries sorted, response / zone / score-name labels). (R) every '
    'shipped listing with spectrum rows is rewritten by an independent '
    'tokenizer so that every score and sigma is unique; each printed row of '
    'a delivered edition must be found exactly once, under its response and '
    'zone, between its printed bin edges and under its step header, and the '
    'datasets that hold rows may hold nothing else. (A) Apollo3 HDF5 files '
    'generated with h5py from a ground truth of unique numbers (standard and '
    'user-value models, anisotropies, surfaces, local values) are read with '
    'Reader and every applicable Picker call and compared with what was '
    'stored, two files out of three rewritten at the path the previous one '
    'had in the same process; Reader-vs-Picker differential and direct h5py walk on the six '
    'shipped files.',
    'layouts limited to those of the shipped examples; h5py trusted; one '
    'open known finding (shape () vs (1,) of one-element local values)',
    'runtime monitoring: ground-truth generators + unique-value tagging '
    'oracle + differential Reader/Picker',
    'DESIGN.md section 4 (C10)')
