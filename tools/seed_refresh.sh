#!/bin/sh
# Re-run the quick checks against every kept seeded change on the current HEAD
# of /repo (no baseline suite) and refresh seeded/<id>/meta.json.
cd /verif
for d in seeded/C*_*; do
  id=$(basename $d); p=${id%_*}
  case $p in
    C01) props="C01,C02,C03,C04";;
    C02) props="C02,C01,C03,C04";;
    C03) props="C03,C01,C02,C04";;
    C04) props="C04,C01,C02,C03";;
    *) props=$p;;
  esac
  [ "$id" = "C01_3" ] && props="C01,C02,C16"
  [ "$id" = "C18_6" ] && props="C12,C18"
  [ "$id" = "C01_12" ] && props="C01,C02,C16"
  [ "$id" = "C12_14" ] && props="C12,C20"
  echo "$props /verif/$d $id"
done | xargs -P ${1:-3} -L 1 sh -c '/verif/tools/seed_eval.py $0 $1 --keep $2 > /tmp/seedrefresh_$2.json 2>&1'
