#!/venv/bin/python
'''Regenerate /verif/MANIFEST.json from the table below (only properties whose
module exists in vf/props are claimed; the others go to not_applicable with the
reason "check not built yet").'''
import json
import os

HERE = os.path.dirname(os.path.dirname(os.path.abspath(__file__)))
BASE = ('cd /repo && GIT_CONFIG_COUNT=1 GIT_CONFIG_KEY_0=init.defaultBranch '
        'GIT_CONFIG_VALUE_0=master /venv/bin/python -m pytest -ra -q '
        '-p no:cacheprovider --timeout=900 --continue-on-collection-errors')

CHECKS = {}


def chk(pid, category, text, note, technique, design):
    CHECKS[pid] = dict(category=category, text=text, note=note,
                       technique=technique, design=design)


exec(open(os.path.join(HERE, 'tools', 'manifest_table.py')).read())

checks, not_app = [], []
props = [json.loads(line)['id']
         for line in open(os.path.join(HERE, 'properties.jsonl'))]
for pid in props:
    have = os.path.exists(os.path.join(HERE, 'vf', 'props',
                                       pid.lower() + '.py'))
    if pid in CHECKS and have:
        ent = CHECKS[pid]
        checks.append({
            'property_id': pid,
            'quick_cmd': f'./check {pid} --tier quick',
            'thorough_cmd': f'./check {pid} --tier thorough',
            'evidence_file': f'/verif/evidence/{pid}.json',
            'replay_cmd_template': f'./check {pid} --replay {{path}}',
            'engine': 'vf',
            'level_claimed': {'category': ent['category'],
                              'text': ent['text'],
                              'design_ref': ent['design']},
            'level_note': ent['note'],
            'technique': ent['technique']})
    else:
        not_app.append({'property_id': pid,
                        'reason': 'runtime monitoring applies (DESIGN.md '
                                  'section 4) but the check is not built yet; '
                                  'not claimed until it is'})

manifest = {
    'version': 1,
    'setup_cmd': ('/venv/bin/python -m pip install -q --no-index --no-deps '
                  '--find-links /opt/veriftools/wheels --target /verif/.deps '
                  'icontract mpmath || true'),
    'hooks': {
        'guard': 'VALJEAN_VERIF',
        'enable': ('none needed: every hook is applied from the harness '
                   '(subclassing, shims inside valjean.cosette.backends.queue,'
                   ' icontract decorators, sys.monitoring); /repo is imported '
                   'from its working tree via PYTHONPATH'),
        'baseline_off_cmd': BASE,
        'source_commits': [],
        'add_only': True},
    'engines': [{'name': 'vf', 'path': '/verif/vf',
                 'serves_properties': [c['property_id'] for c in checks],
                 'kind_free_text': 'runtime monitors: probes, recorded '
                 'histories vs executable reference models, icontract class '
                 'invariants, deep snapshots, cooperative schedule controller,'
                 ' exhaustive crash-point enumeration'}],
    'checks': checks,
    'notes': 'See DESIGN.md. Exit 0 held / 1 VIOLATION / 2 INCONCLUSIVE.',
    'not_applicable': not_app}
with open(os.path.join(HERE, 'MANIFEST.json'), 'w') as fil:
    json.dump(manifest, fil, indent=1)
    fil.write('\n')
print('claimed:', [c['property_id'] for c in checks])
