#!/venv/bin/python
'''Print the prompt given to an independent sub-agent for one property.'''
import json
import sys

pid = sys.argv[1]
wt = sys.argv[2]
n = sys.argv[3] if len(sys.argv) > 3 else '3'
for line in open('/verif/properties.jsonl'):
    p = json.loads(line)
    if p['id'] == pid:
        break
print(f'''You are helping to evaluate a verification effort for the open-source Python project valjean (valjean-framework/valjean: parses Tripoli-4/Apollo3 Monte Carlo outputs, runs statistical comparison tests, schedules tasks through a dependency graph, writes reports).

You have your own scratch git worktree of the repository at {wt} (work ONLY there; never touch /repo or /verif, and do not read anything under /verif). Python is /venv/bin/python; run things with `cd {wt} && PYTHONPATH={wt} /venv/bin/python ...` so that the worktree's copy of the `valjean` package is imported (check `valjean.__file__` once). There is no network. To make git-based tests pass in this sandbox prefix test commands with `GIT_CONFIG_COUNT=1 GIT_CONFIG_KEY_0=init.defaultBranch GIT_CONFIG_VALUE_0=master`.

Here is a semantic property that valjean is supposed to satisfy:

PROPERTY {p['id']}: {p['title']}
{p['statement']}
Scope: {p['quantifier']['text']}
Code involved: {', '.join(p['anchors']['files'])}

Your task: produce {n} DIFFERENT, realistic changes to valjean's source (each a separate, independent patch against the worktree's HEAD) such that each change
  (a) BREAKS the property above (some input / schedule / history / fault now violates the statement),
  (b) still imports/compiles, and still passes the repository's existing test suite (at least all tests and doctests that touch the modified files: run e.g. `cd {wt} && PYTHONPATH={wt} /venv/bin/python -m pytest -q -p no:cacheprovider <relevant test files and the modified module files for doctests>`; the modules' doctests are collected by pytest when you pass the module path), and
  (c) needs something SPECIFIC to manifest: a particular interleaving, a crash or fault at a particular point, a multi-step sequence of operations, an unusual input (edge value, special shape, rare combination of options), or two cooperating code sites that each look fine alone. Do NOT produce changes that ordinary use would expose at once (e.g. every call now gives a wrong answer). Think of plausible regressions: an off-by-one in an edge case, a wrong comparison operator that matters only on ties, an optimisation/caching shortcut that is wrong for one input class, a refactoring that drops a corner case, a lock or ordering change that opens a narrow window.
Make the changes subtle and diverse (different code sites and different failure mechanisms). Keep each patch small.

For each change i = 1..{n} create the directory {wt}/_seeded/{pid}_<i>/ containing:
  - patch.diff : `git diff` of the change against HEAD (must apply with `git apply` on a clean checkout of HEAD),
  - demo.py    : a small standalone program (run as `PYTHONPATH=<tree> /venv/bin/python demo.py`) that exits 0 and prints PASS on the unmodified tree and exits 1 and prints FAIL on the modified tree, by exercising the public behaviour the property talks about (not by inspecting source code),
  - notes.md   : which part of the property it breaks, what exactly it needs in order to manifest, and which existing tests you ran (with their pass counts) on the modified tree.
Never use `git stash` (the stash is shared by all worktrees of the repository and other people work in sibling worktrees); use `git diff > file` / `git apply` / `git apply -R` / `git checkout -- .` instead. After saving each patch, restore the worktree (`git -C {wt} checkout -- .`) before starting the next one, and verify each demo on both the clean and the patched tree. Leave the worktree clean (only the untracked _seeded/ directory) when you finish. In your final answer list the changes with one line each.''')
