#!/venv/bin/python
'''Evaluate one seeded breaking change (never touches /repo's working tree).

  tools/seed_eval.py PROP SEEDDIR [--tests] [--tier quick] [--keep ID]

SEEDDIR holds patch.diff and demo.py (and notes.md).  Steps, all in a scratch
git worktree of /repo's HEAD under /tmp/seedwork:
  1. demo.py on the clean tree must exit 0;
  2. the patch must apply; demo.py on the patched tree must exit != 0;
  3. (--tests) the repository's baseline suite on the patched tree must still
     pass every stable test of BASELINE.json;
  4. ./check PROP --tier <tier> against the patched tree: detected iff exit 1.
With --keep ID the change is stored as /verif/seeded/ID/ (patch.diff, demo.py,
notes.md, meta.json).  The worktree is removed at the end.'''
import json
import os
import shutil
import subprocess
import sys
import time

HERE = os.path.dirname(os.path.dirname(os.path.abspath(__file__)))
PY = '/venv/bin/python'
GITENV = {'GIT_CONFIG_COUNT': '1', 'GIT_CONFIG_KEY_0': 'init.defaultBranch',
          'GIT_CONFIG_VALUE_0': 'master'}


def needs_of(notes):
    '''The "what it needs in order to manifest" paragraph of notes.md.'''
    import re
    mat = re.search(r'(?is)(what (it|exactly it) needs[^\n]*\n+)(.*?)'
                    r'(\n#|\n\*\*[A-Z]|\Z)', notes)
    text = mat.group(3) if mat else notes
    return ' '.join(text.replace('`', '').replace('*', '').split())[:700]


def sh(cmd, **kw):
    return subprocess.run(cmd, capture_output=True, text=True, **kw)


def main():
    args = sys.argv[1:]
    tier, tests, keep = 'quick', False, None
    if '--tier' in args:
        i = args.index('--tier')
        tier = args[i + 1]
        del args[i:i + 2]
    if '--keep' in args:
        i = args.index('--keep')
        keep = args[i + 1]
        del args[i:i + 2]
    if '--tests' in args:
        tests = True
        args.remove('--tests')
    props, seeddir = args[0].split(','), os.path.abspath(args[1])
    tag = keep or os.path.basename(seeddir.rstrip('/'))
    work = f'/tmp/seedwork/{tag}-{os.getpid()}'
    os.makedirs('/tmp/seedwork', exist_ok=True)
    out = {'id': tag, 'properties': props, 'tier': tier}
    sh(['git', '-C', '/repo', 'worktree', 'add', '--detach', '-f', work,
        'HEAD'])
    try:
        out['repo_commit'] = sh(['git', '-C', '/repo', 'rev-parse', '--short',
                                 'HEAD']).stdout.strip()
        env = dict(os.environ, PYTHONPATH=work, PYTHONDONTWRITEBYTECODE='1',
                   MPLBACKEND='Agg', **GITENV)
        demo = os.path.join(seeddir, 'demo.py')
        res = sh([PY, demo], env=env, cwd=work, timeout=600)
        out['demo_clean_exit'] = res.returncode
        res = sh(['git', '-C', work, 'apply', os.path.join(seeddir,
                                                          'patch.diff')])
        out['patch_applies'] = res.returncode == 0
        if not out['patch_applies']:
            out['patch_error'] = res.stderr[-500:]
            print(json.dumps(out, indent=1))
            return 2
        res = sh([PY, demo], env=env, cwd=work, timeout=600)
        out['demo_patched_exit'] = res.returncode
        out['demo_patched_tail'] = (res.stdout + res.stderr)[-300:]
        if tests:
            xml = os.path.join(work, '_junit.xml')
            t_0 = time.time()
            sh([PY, '-m', 'pytest', '-q', '-p', 'no:cacheprovider',
                '--timeout=900', '--continue-on-collection-errors',
                f'--junitxml={xml}'], env=env, cwd=work, timeout=3600)
            cmp_ = sh([PY, os.path.join(HERE, 'tools', 'baseline_cmp.py'),
                       xml])
            out['baseline_ok'] = cmp_.returncode == 0
            out['baseline_summary'] = cmp_.stdout.strip().splitlines()[:6]
            if not out['baseline_ok']:
                # a stable test that fails in the full (loaded) run is run
                # again alone, three times: the suite holds randomised
                # (hypothesis) tests that fail now and then on the unchanged
                # tree too, e.g. tests.eponine.test_browser::test_build_index
                names = [ln.strip() for ln in
                         cmp_.stdout.strip().splitlines()[1:]]
                reruns = {}
                for name in names[:10]:
                    mod, _, func = name.partition('::')
                    node = mod.replace('.', '/') + '.py::' + func
                    oks = 0
                    for _ in range(3):
                        # (a failing random example is stored in the
                        # worktree and would be replayed: start afresh)
                        shutil.rmtree(os.path.join(work, '.hypothesis'),
                                      ignore_errors=True)
                        one = sh([PY, '-m', 'pytest', '-q', '-p',
                                  'no:cacheprovider', node], env=env,
                                 cwd=work, timeout=1200)
                        oks += one.returncode == 0
                    reruns[name] = f'{oks}/3 passed when run alone'
                out['baseline_reruns'] = reruns
                if names and len(names) <= 10 and all(
                        v.startswith(('3/3', '2/3')) for v in
                        reruns.values()):
                    out['baseline_ok'] = True
                    out['baseline_note'] = (
                        'failed in the full run under load, passes when '
                        'run alone: ' + json.dumps(reruns))
            out['baseline_wall_s'] = round(time.time() - t_0)
        out['checks'] = {}
        cenv = dict(os.environ, VERIF_REPO=work,
                    VERIF_EVIDENCE_DIR=os.path.join(work, '_evidence'),
                    VERIF_REPLAY_DIR=os.path.join(work, '_replays'))
        for prop in props:
            t_0 = time.time()
            res = sh([os.path.join(HERE, 'check'), prop, '--tier', tier],
                     env=cenv)
            lines = [ln[:300] for ln in res.stdout.splitlines()
                     if ln.startswith(('VIOLATION', '  mechanism', 'INCONCL',
                                       'KNOWN'))]
            out['checks'][prop] = {'exit': res.returncode,
                                   'detected': res.returncode == 1,
                                   'wall_s': round(time.time() - t_0, 1),
                                   'lines': lines[:6]}
        if keep:
            dst = os.path.join(HERE, 'seeded', keep)
            os.makedirs(dst, exist_ok=True)
            for name in ('patch.diff', 'demo.py', 'notes.md'):
                src = os.path.join(seeddir, name)
                if os.path.exists(src) and os.path.abspath(src) != \
                        os.path.abspath(os.path.join(dst, name)):
                    shutil.copy(src, os.path.join(dst, name))
            meta_path = os.path.join(dst, 'meta.json')
            meta = {}
            if os.path.exists(meta_path):
                meta = json.load(open(meta_path))
            notes_path = os.path.join(dst, 'notes.md')
            if os.path.exists(notes_path) and not meta.get('needs'):
                meta['needs'] = needs_of(open(notes_path).read())
            meta.update({
                'id': keep, 'breaks_property': props[0],
                'confirmed': {
                    'repo_commit': out['repo_commit'],
                    'demo_exit_on_clean_tree': out['demo_clean_exit'],
                    'demo_exit_on_patched_tree': out['demo_patched_exit'],
                    'baseline_stable_tests_pass_on_patched_tree':
                        out.get('baseline_ok', meta.get('confirmed', {}).get(
                            'baseline_stable_tests_pass_on_patched_tree')),
                    'commands': [
                        'git worktree add --detach <scratch> HEAD; '
                        'PYTHONPATH=<scratch> /venv/bin/python demo.py',
                        'git -C <scratch> apply patch.diff; '
                        'PYTHONPATH=<scratch> /venv/bin/python demo.py',
                        'cd <scratch> && /venv/bin/python -m pytest -q -p '
                        'no:cacheprovider --junitxml=...; '
                        'tools/baseline_cmp.py',
                        f'VERIF_REPO=<scratch> ./check {",".join(props)} '
                        f'--tier {tier}']},
                **({'baseline_note': out['baseline_note']}
                   if out.get('baseline_note') else {}),
                'detection': {p: {'tier': tier, **{k: v for k, v in c.items()
                                                  if k != 'lines'},
                                  'mechanisms': [ln.strip() for ln in
                                                 c['lines'] if 'mechanism'
                                                 in ln][:3]}
                              for p, c in out['checks'].items()}})
            with open(meta_path, 'w') as fil:
                json.dump(meta, fil, indent=1)
                fil.write('\n')
        print(json.dumps(out, indent=1))
        return 0
    finally:
        sh(['git', '-C', '/repo', 'worktree', 'remove', '--force', work])
        shutil.rmtree(work, ignore_errors=True)


if __name__ == '__main__':
    sys.exit(main())
