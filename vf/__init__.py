'''Runtime-monitoring framework for valjean (see /verif/DESIGN.md).'''
