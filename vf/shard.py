'''Child-process entry point: ``python -m vf.shard PROP SPEC RESULT``.'''
import logging
import sys
import warnings

warnings.simplefilter('ignore')
logging.disable(logging.CRITICAL)

from vf.core import shard_main  # noqa: E402

if __name__ == '__main__':
    shard_main(sys.argv[1:])
