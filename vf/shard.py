'''Child-process entry point: ``python -m vf.shard PROP SPEC RESULT``.'''
import logging
import os
import sys
import warnings

warnings.simplefilter('ignore')
logging.disable(logging.CRITICAL)

from vf.core import shard_main  # noqa: E402

if __name__ == '__main__':
    shard_main(sys.argv[1:])
    sys.stdout.flush()
    sys.stderr.flush()
    # threads leaked by the code under test must not keep the shard alive
    os._exit(0)
