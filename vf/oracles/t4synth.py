'''Writer of synthetic Tripoli-4 listings from a known ground truth, following
the layouts of the shipped example listings (spectrum in E, E x t, E x mu,
with or without energy-integrated results, "not yet converged" results), and
an independent tokenizer used to rewrite the numbers of the shipped listings.

Every score and sigma written is unique, so that a parsed cell identifies the
row it came from.'''
import re

STARS = '*' * 78


def fmt(val):
    return f'{val:.6e}'


class Unique:
    '''Source of unique printable numbers: value == float(fmt(value)).'''

    def __init__(self, rng):
        self.rng = rng
        self.num = 0
        self.used = set()

    def score(self, allow_special=True):
        self.num += 1
        rnd = self.rng.random()
        if allow_special and rnd < 0.08:
            return 0.0
        mant = 1.0 + (self.num % 899999 + 1) * 1e-5     # 1.00001 .. 9.99999
        expo = self.rng.choice([-8, -3, -1, 0, 0, 1, 2, 5])
        sign = -1.0 if (allow_special and rnd > 0.9) else 1.0
        val = float(fmt(sign * mant * 10.0 ** expo))
        if val in self.used:
            return self.score(allow_special)
        self.used.add(val)
        return val

    def sigma(self):
        self.num += 1
        val = float(fmt(0.1 + (self.num % 99999) * 1e-3))
        if val in self.used:
            return self.sigma()
        return val


def para_header():
    '''Header of a parallel run (as ttsSimplePacket20.d.PARA of the tests).'''
    return ('\n=====================================================\n'
            ' HOSTNAME : synthetic\n\n number of tasks is : 8\n\n'
            '=====================================================\n'
            ' data filename = synthetic.d\n catalogname = synthetic\n\n'
            'GEOMETRY\nTITRE synthetic listing\nFINGEOM\n\n'
            ' SIMULATION\n BATCH 1000\n SIZE 100\n FIN_SIMULATION\n\n'
            ' Loading response functions ...\n\n'
            ' initialization time (s): 3\n\n\n'
            'Scorer time info\n elapsed time (s): 6\n\n')


def header():
    return ('\n=====================================================\n'
            ' data filename = synthetic.d\n catalogname = synthetic\n\n'
            'GEOMETRY\nTITRE synthetic listing\nFINGEOM\n\n'
            ' SIMULATION\n BATCH 1000\n SIZE 100\n FIN_SIMULATION\n\n'
            ' Total concentration of material VIDE (1.E24at/cm3) is: '
            '1.000000e-21\n\n'
            ' Loading response functions ...\n\n'
            ' initialization time (s): 3\n\n')


def batch_lines(lo, hi):
    out = []
    for num in range(lo, hi + 1):
        out.append(f' batch number : {num}\n\n'
                   '  quota sampling and descendant statistics: \n'
                   '\t mean number of collision per neutron history: '
                   '0.000000e+00\t sigma_n : 0.000000e+00\n\n')
    return ''.join(out)


def edition_head(batch, para=False):
    if para:
        # the batch number is not printed in parallel mode
        return ('\n*****************************************************'
                '****\n\n'
                ' RESULTS ARE GIVEN FOR SOURCE INTENSITY : unavailable\n'
                '*****************************************************'
                '****\n\n\n'
                ' Mean weight leakage = 7.111140e+02\t sigma = '
                '4.388024e+00\t sigma% = 6.170634e-01\n\n\n\n')
    return ('*********************************************************\n\n'
            ' RESULTS ARE GIVEN FOR SOURCE INTENSITY : 1.000000e+00\n'
            '*********************************************************\n\n\n'
            ' Mean weight leakage = 7.111140e+02\t sigma = 4.388024e+00\t '
            'sigma% = 6.170634e-01\n\n\n'
            f' Edition after batch number : {batch}\n\n\n\n')


def response_head(resp):
    lines = [STARS, f'RESPONSE FUNCTION : {resp["function"]}',
             f'RESPONSE NAME : {resp["name"]}']
    if resp.get('score_name'):
        lines.append(f'SCORE NAME : {resp["score_name"]}')
    lines += [f'ENERGY DECOUPAGE NAME : {resp["decoupage"]}', '', '',
              ' PARTICULE : NEUTRON ', STARS, '']
    return '\n'.join(lines) + '\n'


def spectrum_block(edges, scores, sigmas, decreasing, used, integrated,
                   discarded=0):
    '''One SPECTRUM RESULTS block; `edges` increasing, `scores[i]` for
    (edges[i], edges[i+1]).'''
    used -= discarded
    out = ['\t SPECTRUM RESULTS\n',
           f'\t number of first discarded batches : {discarded}\n\n',
           '\t group (MeV) \t\t score   \t sigma_% \t score/lethargy\n\n']
    idx = list(range(len(scores)))
    if decreasing:
        idx.reverse()
    for i in idx:
        lo, hi = edges[i], edges[i + 1]
        first, second = (hi, lo) if decreasing else (lo, hi)
        out.append(f'{fmt(first)} - {fmt(second)}\t{fmt(scores[i])}\t'
                   f'{fmt(sigmas[i])}\t{fmt(abs(scores[i]) * 0.5)}\n')
    out.append('\n')
    if integrated is not None:
        out.append('\t ENERGY INTEGRATED RESULTS\n\n'
                   f'\t number of first discarded batches : {discarded}'
                   '\n\n')
        if integrated == 'not_converged':
            out.append('\t NOT YET CONVERGED \n')
        else:
            out.append(f'number of batches used: {used}\t'
                       f'{fmt(integrated[0])}\t{fmt(integrated[1])}\n')
        out.append('\n\n')
    return ''.join(out)


def mesh_block(zone):
    '''Results on a mesh (cells (i,0,0)), one block of cells per energy range
    (layout of the shipped tungstene / box_dyn / entropy listings), each
    possibly followed by the entropies of the sources.'''
    out = ['\t scoring mode : SCORE_COLL\n',
           '\t scoring zone : \t Results on a mesh: \n',
           '\t Cell   \t  tally   \t  sigma (percent)\n\n\n']
    idx = list(range(len(zone['edges']) - 1))
    if zone['decreasing']:
        idx.reverse()
    for i in idx:
        lo, hi = zone['edges'][i], zone['edges'][i + 1]
        first, second = (hi, lo) if zone['decreasing'] else (lo, hi)
        out.append(f'Energy range (in MeV): {fmt(first)} - {fmt(second)}\n')
        for cnum, (score, sigma) in enumerate(zone['cells'][i]):
            out.append(f'\t ({cnum},0,0)\t {fmt(score)}\t{fmt(sigma)}\n')
        out.append('\n')
        if zone['entropies'] is not None:
            boltz, shan = zone['entropies'][i]
            out.append(f' \t Boltzmann Entropy of sources = {fmt(boltz)}\n'
                       f'\t Shannon Entropy of sources = {fmt(shan)}\n\n')
    return ''.join(out)


def zone_block(zone, used):
    '''Scoring zone with its spectra (possibly one per time / mu step).'''
    if zone.get('mesh'):
        return mesh_block(zone)
    out = ['\t scoring mode : SCORE_TRACK\n',
           f'\t scoring zone : \t Volume \t num of volume : {zone["id"]}\n',
           '\t Volume in cm3: 1.000000e+00\n\n\n']
    steps = zone['steps']
    if zone.get('steps_decreasing'):
        steps = list(reversed(steps))
    for num, step in enumerate(steps):
        if zone['step_kind'] == 't':
            out.append(f'\t TIME STEP NUMBER : {num}\n'
                       '\t ------------------------------------\n'
                       f'\t\t time min. = {fmt(step["lo"])}\n'
                       f'\t\t time max. = {fmt(step["hi"])}\n\n')
        elif zone['step_kind'] == 'mu':
            out.append(f'\t MU ANGULAR ZONE : {num}\n'
                       '\t ------------------------------------\n'
                       f'\t\t mu min. = {fmt(step["lo"])}\n'
                       f'\t\t mu max. = {fmt(step["hi"])}\n\n')
        out.append(spectrum_block(zone['edges'], step['scores'],
                                  step['sigmas'], zone['decreasing'], used,
                                  step['integrated'],
                                  zone.get('discarded', 0)))
        out.append('\n')
    return ''.join(out)


def gen_truth(rng):
    '''Ground truth of a whole listing.'''
    uniq = Unique(rng)
    nedit = rng.choice([1, 1, 2, 3, 4])
    batches = sorted(rng.sample(range(5, 400), nedit))
    editions = []
    nresp = rng.randint(1, 4)
    layout = []
    # a parallel run: the editions do not print their batch number, the
    # scanner takes the greatest "number of batches used" of the edition
    para = rng.random() < 0.2
    for ridx in range(nresp):
        ngroups = rng.choice([1, 2, 3, 4, 6])
        start = rng.choice([1e-11, 1e-5, 0.5])
        edges = [start]
        for _ in range(ngroups):
            edges.append(float(fmt(edges[-1] * rng.choice([2.0, 10.0, 3.5])
                                   + rng.choice([0.0, 1.0]))))
        step_kind = rng.choice([None, None, 't', 'mu'])
        nsteps = 1 if step_kind is None else rng.randint(1, 3)
        if step_kind == 't':
            bounds = [0.0, 1.0, 2.5, 4.0, 1e35][:nsteps + 1]
        else:
            bounds = [-1.0, -0.5, 0.0, 1.0][:nsteps + 1]
        zones = sorted(rng.sample(range(1, 30), rng.randint(1, 3)))
        if rng.random() < 0.5:
            zones.reverse()
        mesh = None
        if rng.random() < 0.25 and not para:
            # results on a mesh instead of volumes
            mesh = {'ncells': rng.randint(1, 3),
                    'entropy': rng.random() < 0.6}
            step_kind, bounds = None, [0.0, 1.0]
            zones = [None]
        layout.append({'mesh': mesh,
                       'function': rng.choice(['FLUX', 'REACTION',
                                               'COURANT']),
                       'name': f'resp_{ridx}', 'decoupage': f'DEC_{ridx}',
                       'score_name': rng.choice([None, f'score_{ridx}']),
                       'edges': edges, 'decreasing': rng.random() < 0.6,
                       'step_kind': step_kind, 'bounds': bounds,
                       'zones': zones,
                       'steps_decreasing': (step_kind is not None
                                            and rng.random() < 0.4),
                       'integrated': 'yes' if para else rng.choice(
                           ['yes', 'yes', 'no', 'not_converged', 'mixed'])})
    for batch in batches:
        resps = []
        for lay in layout:
            zones = []
            if lay['mesh']:
                ngr = len(lay['edges']) - 1
                cells = [[(uniq.score(), uniq.sigma())
                          for _ in range(lay['mesh']['ncells'])]
                         for _ in range(ngr)]
                cells = [[(sc, 0.0 if sc == 0.0 else sg) for sc, sg in grp]
                         for grp in cells]
                entr = None
                if lay['mesh']['entropy']:
                    entr = [(abs(uniq.score(False)), abs(uniq.score(False)))
                            for _ in range(ngr)]
                resps.append(dict(lay, zone_data=[{
                    'id': None, 'mesh': True, 'edges': lay['edges'],
                    'decreasing': lay['decreasing'], 'cells': cells,
                    'entropies': entr}]))
                continue
            for zid in lay['zones']:
                steps = []
                for snum in range(len(lay['bounds']) - 1):
                    ngr = len(lay['edges']) - 1
                    integ = None
                    if lay['integrated'] == 'yes':
                        integ = (uniq.score(False), uniq.sigma())
                        if rng.random() < 0.15:
                            # a zero result (or one identical in all
                            # batches) is printed with a zero sigma
                            integ = (rng.choice([0.0, integ[0]]), 0.0)
                    elif lay['integrated'] == 'not_converged':
                        integ = 'not_converged'
                    elif lay['integrated'] == 'mixed':
                        # some steps converged, others not yet (as in an
                        # early edition)
                        integ = 'not_converged'
                        if snum == 0 or rng.random() < 0.5:
                            integ = (uniq.score(False), uniq.sigma())
                    steps.append({'lo': lay['bounds'][snum],
                                  'hi': lay['bounds'][snum + 1],
                                  'scores': [uniq.score() for _ in
                                             range(ngr)],
                                  'sigmas': [uniq.sigma() for _ in
                                             range(ngr)],
                                  'integrated': integ})
                for step in steps:     # zero score => zero sigma, as T4 does
                    step['sigmas'] = [0.0 if sc == 0.0 else sg for sc, sg in
                                      zip(step['scores'], step['sigmas'])]
                discarded = 0
                if para and not (lay is layout[-1]
                                 and zid == lay['zones'][-1]):
                    # some scores discard their first batches (never the
                    # last one printed: it carries the number of the edition)
                    discarded = rng.choice([0, 0, 1, 3, batch - 2])
                zones.append({'id': zid, 'discarded': discarded,
                              'edges': lay['edges'],
                              'decreasing': lay['decreasing'],
                              'steps_decreasing': lay['steps_decreasing'],
                              'step_kind': lay['step_kind'], 'steps': steps})
            resps.append(dict(lay, zone_data=zones))
        editions.append({'batch': batch, 'responses': resps})
    return {'editions': editions, 'para': para,
            'normal_end': True if para else rng.random() < 0.8}


def write_listing(truth):
    para = truth.get('para', False)
    out = [para_header() if para else header()]
    prev = 0
    simtime = 0
    for edi in truth['editions']:
        if not para:
            out.append(batch_lines(prev + 1, edi['batch']))
        prev = edi['batch']
        out.append(edition_head(edi['batch'], para))
        for resp in edi['responses']:
            out.append(response_head(resp))
            for zone in resp['zone_data']:
                out.append(zone_block(zone, edi['batch']))
            out.append('\n\n')
        simtime += 7
        if para:
            out.append(f' simulation time (s): {simtime}\n\n'
                       f' elapsed time (s): {simtime + 100}\n\n\n')
        else:
            out.append(f' simulation time (s) : {simtime}\n\n\n')
    if truth['normal_end']:
        out.append('\n=====================================================\n'
                   '\tNORMAL COMPLETION\n'
                   '=====================================================\n')
    return ''.join(out)


# --------------------------------------------------------------------------
# rewriting the numbers of a shipped listing

NUM = r'[-+]?\d\.\d+e[-+]\d+'
ROW = re.compile(rf'^({NUM}) - ({NUM})\t({NUM})\t({NUM})((?:\t{NUM})?)\s*$')
INTEG = re.compile(rf'^(number of batches used: \d+)\t({NUM})\t({NUM})\s*$')
STEP = re.compile(r'^\s*(time|mu|phi) (min|max)\. = (' + NUM + r')\s*$')
KEST = re.compile(rf'^ (KSTEP|KCOLL|KTRACK)(\s+)({NUM})\t({NUM})\s*$')
KPAIR = re.compile(rf'^(\s*)(KSTEP|KCOLL|KTRACK) <-> (KSTEP|KCOLL|KTRACK)'
                   rf'(\s+)({NUM})(\s+)({NUM})(\s+)({NUM}|Not converged)\s*$')
KAUTO = re.compile(rf'^(\t number of batch used: \d+\t keff = )({NUM})'
                   rf'(\t sigma = )({NUM})(\t sigma% = )({NUM})\s*$')
KHEAD = re.compile(r'^\t  (MACRO KCOLL|KSTEP|KCOLL|KTRACK)\s+ESTIMATOR\s*$')


def rewrite(text, rng):
    '''Give every spectrum row and every integrated row of `text` a unique
    score and sigma.  Returns (new text, list of rows) where a row is a
    dictionary: line (the exact new line), kind ('group' | 'integrated'),
    e (sorted pair or None), score, sigma, response (header values), zone
    (the scoring zone line), steps ({'time': (lo, hi), ...}).'''
    uniq = Unique(rng)
    # the new numbers must not collide with numbers the listing holds in
    # places that are not rewritten
    uniq.used.update(float(tok) for tok in re.findall(NUM, text))
    uniq.used.update(-val for val in list(uniq.used))
    rows, out = [], []
    ctx = {'response': {}, 'zone': None, 'steps': {}}
    pending = {}
    for line in text.split('\n'):
        stripped = line.strip()
        if stripped.startswith('RESPONSE FUNCTION :'):
            ctx['response'] = {'function': stripped.split(':', 1)[1].strip()}
            ctx['zone'] = None
            ctx['steps'] = {}
        elif stripped.startswith('RESPONSE NAME :'):
            ctx['response']['name'] = stripped.split(':', 1)[1].strip()
        elif stripped.startswith('SCORE NAME :'):
            ctx['response']['score_name'] = stripped.split(':', 1)[1].strip()
        elif stripped.startswith('scoring zone :'):
            ctx['zone'] = ' '.join(stripped.split())
            ctx['steps'] = {}
        mat = STEP.match(line)
        if mat:
            kind, which, val = mat.group(1), mat.group(2), float(mat.group(3))
            pending[(kind, which)] = val
            if which == 'max' and (kind, 'min') in pending:
                ctx['steps'] = dict(ctx['steps'])
                ctx['steps'][kind] = (pending[(kind, 'min')], val)
                # a new outer step resets the inner ones
                order = ['time', 'mu', 'phi']
                for inner in order[order.index(kind) + 1:]:
                    ctx['steps'].pop(inner, None)
        mat = KHEAD.match(line)
        if mat:
            ctx['estimator'] = mat.group(1)
        mat = KEST.match(line)
        if mat:
            score, sigma = abs(uniq.score(False)), uniq.sigma()
            new = f' {mat.group(1)}{mat.group(2)}{fmt(score)}\t{fmt(sigma)}'
            rows.append({'line': new, 'kind': 'keff', 'e': None,
                         'score': score, 'sigma': sigma, 'abs_sigma': None,
                         'estimator': mat.group(1), 'correlation': None,
                         'response': dict(ctx['response']), 'zone': None,
                         'steps': {}})
            out.append(new)
            continue
        mat = KPAIR.match(line)
        if mat:
            score = abs(uniq.score(False))
            conv = mat.group(9) != 'Not converged'
            sigma = uniq.sigma() if conv else None
            last = fmt(sigma) if conv else mat.group(9)
            new = (f'{mat.group(1)}{mat.group(2)} <-> {mat.group(3)}'
                   f'{mat.group(4)}{mat.group(5)}{mat.group(6)}{fmt(score)}'
                   f'{mat.group(8)}{last}')
            rows.append({'line': new, 'kind': 'keff', 'e': None,
                         'score': score, 'sigma': sigma, 'abs_sigma': None,
                         'estimator': f'{mat.group(2)}-{mat.group(3)}',
                         'correlation': float(mat.group(5)),
                         'response': dict(ctx['response']), 'zone': None,
                         'steps': {}})
            out.append(new)
            continue
        mat = KAUTO.match(line)
        if mat:
            score, pct = abs(uniq.score(False)), uniq.sigma()
            sig = float(fmt(score * pct / 100.0))
            new = (f'{mat.group(1)}{fmt(score)}{mat.group(3)}{fmt(sig)}'
                   f'{mat.group(5)}{fmt(pct)}')
            rows.append({'line': new, 'kind': 'keff', 'e': None,
                         'score': score, 'sigma': pct, 'abs_sigma': sig,
                         'estimator': ctx.get('estimator'),
                         'correlation': None,
                         'response': {}, 'zone': None, 'steps': {}})
            out.append(new)
            continue
        mat = ROW.match(line)
        if mat:
            score, sigma = uniq.score(False), uniq.sigma()
            tail = mat.group(5)
            new = (f'{mat.group(1)} - {mat.group(2)}\t{fmt(score)}\t'
                   f'{fmt(sigma)}{tail}')
            rows.append({'line': new, 'kind': 'group',
                         'e': tuple(sorted((float(mat.group(1)),
                                            float(mat.group(2))))),
                         'score': score, 'sigma': sigma,
                         'response': dict(ctx['response']),
                         'zone': ctx['zone'], 'steps': dict(ctx['steps'])})
            out.append(new)
            continue
        mat = INTEG.match(line)
        if mat:
            score, sigma = uniq.score(False), uniq.sigma()
            new = f'{mat.group(1)}\t{fmt(score)}\t{fmt(sigma)}'
            rows.append({'line': new, 'kind': 'integrated', 'e': None,
                         'score': score, 'sigma': sigma,
                         'response': dict(ctx['response']),
                         'zone': ctx['zone'], 'steps': dict(ctx['steps'])})
            out.append(new)
            continue
        out.append(line)
    return '\n'.join(out), rows
