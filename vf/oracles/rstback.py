'''reStructuredText read-back with docutils: the text the report code emits is
parsed again and its tables, highlight marks, anchors, toctrees and images are
extracted from the document tree.

The Sphinx-only constructs that valjean legitimately emits (``:ref:`` role,
``toctree`` directive) are registered with docutils as inert role / directive
before parsing, otherwise every cross-reference would be reported as an
unknown role -- a false alarm of the oracle, not a defect.'''
import io

from docutils import nodes
from docutils.core import publish_doctree
from docutils.parsers.rst import Directive, directives, roles

_DONE = []


class _TocTree(Directive):
    has_content = True
    option_spec = {'maxdepth': directives.unchanged,
                   'caption': directives.unchanged,
                   'hidden': directives.flag,
                   'numbered': directives.unchanged,
                   'titlesonly': directives.flag}

    def run(self):
        node = nodes.container()
        node['classes'].append('toctree')
        node['entries'] = [line.strip() for line in self.content
                           if line.strip()]
        return [node]


def _ref_role(name, rawtext, text, lineno, inliner, options=None,
              content=None):
    # pylint: disable=too-many-arguments,unused-argument
    node = nodes.inline(rawtext, text)
    node['classes'].append('sphinx-ref')
    return [node], []


def setup():
    if _DONE:
        return
    _DONE.append(1)
    roles.register_local_role('ref', _ref_role)
    roles.register_local_role('doc', _ref_role)
    directives.register_directive('toctree', _TocTree)


def parse(text):
    '''Returns (doctree, warnings text).  `doctree` is None when docutils
    itself raised.'''
    setup()
    stream = io.StringIO()
    try:
        doc = publish_doctree(text, settings_overrides={
            'report_level': 2, 'halt_level': 5, 'warning_stream': stream,
            'file_insertion_enabled': False, 'raw_enabled': False})
    except Exception as err:  # pylint: disable=broad-except
        return None, f'docutils raised {err!r}'
    return doc, stream.getvalue()


def _walk(node, cls):
    return node.findall(cls) if hasattr(node, 'findall') \
        else node.traverse(cls)


def marks(doc):
    '''Texts wrapped in the ``hl`` role.'''
    return [n.astext() for n in _walk(doc, nodes.inline)
            if 'hl' in n['classes']]


def _cell(entry):
    text = entry.astext().strip()
    high = [n for n in _walk(entry, nodes.inline) if 'hl' in n['classes']]
    # highlighted iff the whole cell is one hl inline
    whole = bool(high) and high[0].astext().strip() == text
    return text, bool(high), whole


def tables(doc):
    '''[{'headers': [...], 'rows': [[(text, highlighted)]]}].'''
    out = []
    for tab in _walk(doc, nodes.table):
        heads, rows = [], []
        for thead in _walk(tab, nodes.thead):
            for row in _walk(thead, nodes.row):
                heads = [e.astext().strip()
                         for e in row.children if isinstance(e, nodes.entry)]
        for tbody in _walk(tab, nodes.tbody):
            for row in tbody.children:
                if isinstance(row, nodes.row):
                    rows.append([_cell(e)[:2] for e in row.children
                                 if isinstance(e, nodes.entry)])
        out.append({'headers': heads, 'rows': rows})
    return out


def anchors(doc):
    '''Explicit hyperlink targets (``.. _name:``).'''
    out = []
    for tgt in _walk(doc, nodes.target):
        out.extend(tgt.get('names', []))
        if tgt.get('refid') and not tgt.get('names'):
            out.append(tgt['refid'])
    return out


def toctree_entries(doc):
    out = []
    for node in _walk(doc, nodes.container):
        if 'toctree' in node['classes']:
            out.extend(node['entries'])
    return out


def images(doc):
    return [n['uri'] for n in _walk(doc, nodes.image)]


def titles(doc):
    return [n.astext() for n in _walk(doc, nodes.title)]
