'''Independent numerical oracles for the statistical tests: two-sided tails of
the normal and Student laws and the upper tail of the chi-square law.

Fast variant: scipy.special (erfc, betainc, gammaincc) -- a different code
path from the scipy.stats ``ppf``/``sf`` functions the code under test calls.
Exact variant: mpmath at 50 digits, used on a sample and on every bin whose
p-value is close to the level.'''
import math

from scipy import special

try:
    import mpmath
    mpmath.mp.dps = 50
    HAVE_MP = True
except ImportError:   # pragma: no cover
    mpmath = None
    HAVE_MP = False


def two_sided_p(tabs, ndf):
    '''P(|T| > tabs) for the normal law (ndf None) or Student's law.'''
    if tabs != tabs:
        return float('nan')
    if math.isinf(tabs):
        return 0.0
    if ndf is None:
        return float(special.erfc(tabs / math.sqrt(2.0)))
    tsq = tabs * tabs
    if tsq / (ndf + tsq) < 1e-6:
        # small |t|: ndf / (ndf + t^2) rounds to 1 and loses the tail; use
        # the complementary form, accurate near p = 1
        return 1.0 - float(special.betainc(0.5, ndf / 2.0,
                                           tsq / (ndf + tsq)))
    xval = ndf / (ndf + tsq)
    return float(special.betainc(ndf / 2.0, 0.5, xval))


def two_sided_p_exact(tabs, ndf):
    '''Same, in mpmath (50 digits); `tabs` may be an mpf.'''
    tabs = mpmath.mpf(tabs)
    if ndf is None:
        return mpmath.erfc(tabs / mpmath.sqrt(2))
    ndf = mpmath.mpf(ndf)
    xval = ndf / (ndf + tabs * tabs)
    return mpmath.betainc(ndf / 2, mpmath.mpf(1) / 2, 0, xval,
                          regularized=True)


def exact_t(v_1, v_2, e_1, e_2):
    '''|v1 - v2| / sqrt(e1^2 + e2^2) computed exactly from the doubles.'''
    num = abs(mpmath.mpf(v_1) - mpmath.mpf(v_2))
    den = mpmath.sqrt(mpmath.mpf(e_1) ** 2 + mpmath.mpf(e_2) ** 2)
    return num / den


def chi2_sf(xval, ndf):
    '''Upper tail of the chi-square law with `ndf` degrees of freedom.'''
    if xval != xval:
        return float('nan')
    if ndf <= 0:
        return float('nan')
    if math.isinf(xval):
        return 0.0
    return float(special.gammaincc(ndf / 2.0, xval / 2.0))


def chi2_sf_exact(xval, ndf):
    xval, ndf = mpmath.mpf(xval), mpmath.mpf(ndf)
    return mpmath.gammainc(ndf / 2, xval / 2, mpmath.inf, regularized=True)
