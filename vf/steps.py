'''Logical step budgets: a PY_START counter (sys.monitoring) that raises when
a computation makes more Python function calls than allowed.'''
import sys


class StepBudget(Exception):
    '''The logical step budget of one parse was exceeded.'''


class Steps:
    '''PY_START counter (sys.monitoring).'''
    TOOL = 3

    def __init__(self):
        self.count = 0
        self.budget = None
        self.active = False
        mon = sys.monitoring
        try:
            mon.use_tool_id(self.TOOL, 'vf-steps')
        except ValueError:
            return
        mon.register_callback(self.TOOL, mon.events.PY_START, self._cb)
        self.active = True

    def _cb(self, code, offset):  # pylint: disable=unused-argument
        self.count += 1
        if self.budget is not None and self.count > self.budget:
            self.budget = None
            raise StepBudget(f'more than {self.count} function calls')

    def start(self, budget=None):
        self.count = 0
        self.budget = budget
        if self.active:
            sys.monitoring.set_events(self.TOOL,
                                      sys.monitoring.events.PY_START)

    def stop(self):
        if self.active:
            sys.monitoring.set_events(self.TOOL, 0)
        self.budget = None
        return self.count


_ONE = []


def get():
    '''The process-wide counter (a tool id can be claimed only once).'''
    if not _ONE:
        _ONE.append(Steps())
    return _ONE[0]
