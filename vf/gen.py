'''Seeded generators shared by the dataset / statistics / rendering monitors.'''
from collections import OrderedDict

import numpy as np

BIN_NAMES = ['e', 't', 'mu', 'phi', 'x', 'y']
NICE = [0.0, 1.0, -1.0, 2.0, 0.5, 3.0, 10.0, -2.5, 1e-3, 1e3, 7.0, -0.125]


def shape(rng, max_ndim=4, max_dim=4, allow_scalar=True, max_size=256,
          allow_one=True):
    '''Random shape; () stands for a scalar dataset (numpy.generic).'''
    lo_ndim = 0 if allow_scalar else 1
    ndim = rng.choice([lo_ndim, 1, 1, 2, 2, 3, max_ndim])
    ndim = min(ndim, max_ndim)
    while True:
        dims = tuple(rng.randint(1 if allow_one else 2, max_dim)
                     for _ in range(ndim))
        if int(np.prod(dims, dtype=int)) <= max_size:
            return dims


def values(rng, shp, kind=None):
    '''Finite values of either sign (floats).'''
    size = int(np.prod(shp, dtype=int))
    kind = kind or rng.choice(['nice', 'gauss', 'wide', 'pos', 'int'])
    if kind == 'nice':
        flat = [rng.choice(NICE) for _ in range(size)]
    elif kind == 'gauss':
        flat = [rng.gauss(0, 10) for _ in range(size)]
    elif kind == 'wide':
        flat = [rng.choice([-1, 1]) * 10 ** rng.uniform(-8, 8)
                for _ in range(size)]
    elif kind == 'pos':
        flat = [rng.uniform(0.1, 100) for _ in range(size)]
    else:
        flat = [float(rng.randint(-5, 5)) for _ in range(size)]
    return np.array(flat, dtype=float).reshape(shp)


def errors(rng, shp, zeros=0.15):
    '''Non-negative errors, some exactly zero.'''
    size = int(np.prod(shp, dtype=int))
    flat = []
    for _ in range(size):
        if rng.random() < zeros:
            flat.append(0.0)
        else:
            flat.append(rng.choice([1.0, 0.5, 2.0, rng.uniform(1e-3, 5),
                                    10 ** rng.uniform(-6, 3)]))
    return np.array(flat, dtype=float).reshape(shp)


def bins(rng, shp, kind=None, names=None):
    '''OrderedDict of bins: per dimension N+1 edges or N centres (mixed when
    kind is 'mixed'), or no bins at all (kind 'none').'''
    kind = kind or rng.choice(['edges', 'edges', 'centres', 'mixed', 'none'])
    out = OrderedDict()
    if kind == 'none' or not shp:
        return out
    names = names or BIN_NAMES
    for axis, dim in enumerate(shp):
        k = kind if kind != 'mixed' else rng.choice(['edges', 'centres'])
        num = dim + 1 if k == 'edges' else dim
        start = rng.choice([0.0, -3.0, 1.5, 100.0])
        steps = [rng.choice([1.0, 0.5, 2.0, 10.0]) for _ in range(num)]
        arr = start + np.cumsum([0.0] + steps[:-1]) if num else np.array([])
        # unique values per axis so that a bin identifies its position
        out[names[axis]] = np.array(arr, dtype=float) + axis * 1000.0
    return out


def dataset(rng, shp=None, bins_kind=None, name='ds', what='flux', **kw):
    '''Random well-formed Dataset.'''
    from valjean.eponine.dataset import Dataset
    if shp is None:
        shp = shape(rng, **kw)
    val = values(rng, shp)
    err = errors(rng, shp)
    if shp == ():
        val, err = np.float64(val), np.float64(err)
    return Dataset(val, err, bins=bins(rng, shp, bins_kind), name=name,
                   what=what)


def describe(dset):
    '''JSON-able description (replayable) of a dataset.'''
    return {'value': np.asarray(dset.value, dtype=float).tolist(),
            'error': np.asarray(dset.error, dtype=float).tolist(),
            'shape': list(np.shape(dset.value)),
            'scalar': not isinstance(dset.value, np.ndarray),
            'bins': [[k, np.asarray(v, dtype=float).tolist()]
                     for k, v in dset.bins.items()],
            'name': dset.name, 'what': dset.what}


def rebuild(desc):
    '''Inverse of describe.'''
    from valjean.eponine.dataset import Dataset
    val = np.array(desc['value'], dtype=float).reshape(desc['shape'])
    err = np.array(desc['error'], dtype=float).reshape(desc['shape'])
    if desc['scalar']:
        val, err = np.float64(val), np.float64(err)
    bns = OrderedDict((k, np.array(v, dtype=float)) for k, v in desc['bins'])
    return Dataset(val, err, bins=bns, name=desc['name'], what=desc['what'])
