'''pytest plugin (``-p vf.pytest_contracts``): run the repository's own tests
with the harness' runtime contracts installed on the real classes.  The names
of the contracts come from the environment variable VF_CONTRACTS.'''
import os


def pytest_configure(config):  # pylint: disable=unused-argument
    from vf import contracts
    names = [n for n in os.environ.get('VF_CONTRACTS', '').split(',') if n]
    contracts.install(names)


def pytest_terminal_summary(terminalreporter):
    from vf import contracts
    terminalreporter.write_line('VF_CONTRACT_EVALS ' + repr(contracts.EVALS))
