'''Cooperative schedule controller.

The real threads of the real ``QueueScheduling`` run, but exactly one of them
at a time: every blocking primitive they use is replaced by a cooperative
version that *parks* the calling thread at a scheduling point together with an
enabledness predicate, and the controller wakes the next thread chosen by a
strategy among the enabled ones.  A schedule is the list of chosen thread
names; a run is deterministic given that list.

Scheduling points are placed *before* every visible operation (lock acquire,
condition wait / notify, queue put / get / task_done / join, thread start /
join, sleep, and the probes' own yield points); releases are not scheduling
points (the next visible operation of the releasing thread is one).

Deadlock is observed exactly: some managed thread is unfinished and no parked
thread is enabled.  The run is then aborted (every parked thread is released
and raises ``Deadlock`` from its scheduling point).
'''
import queue as _queue
import threading as _thr
import time as _time

_REAL_START = _thr.Thread.start


class Deadlock(BaseException):
    '''Raised inside managed threads when the run is aborted.'''


class LostControl(Exception):
    '''A thread that the controller does not manage reached a cooperative
    primitive, or a managed thread stopped reaching scheduling points.'''


class Rec:
    '''Controller-side record of one managed thread.'''
    # pylint: disable=too-few-public-methods
    def __init__(self, name):
        self.name = name
        self.sem = _thr.Semaphore(0)
        self.pred = None
        self.label = 'new'
        self.parked = False
        self.finished = False
        self.notified = False
        self.died = None


# --------------------------------------------------------------------------
# strategies

class RandomWalk:
    '''Uniform choice among the enabled threads.'''
    name = 'random'

    def __init__(self, rng):
        self.rng = rng

    def pick(self, names, cur, step):
        # pylint: disable=unused-argument
        return self.rng.randrange(len(names))


class PCT:
    '''Priority-based schedule with depth-1 priority change points
    (Burckhardt et al.): the highest-priority enabled thread runs; at each
    change point the running thread is given a priority lower than all.'''
    name = 'pct'

    def __init__(self, rng, depth=3, est_steps=150):
        self.rng = rng
        self.prio = {}
        self.low = 0
        self.change = set(rng.randrange(1, max(2, est_steps))
                          for _ in range(max(0, depth - 1)))
        self.name = f'pct{depth}'

    def pick(self, names, cur, step):
        # pylint: disable=unused-argument
        for name in names:
            if name not in self.prio:
                self.prio[name] = self.rng.random() + 1
        best = max(names, key=lambda n: self.prio[n])
        if step in self.change:
            self.low -= 1
            self.prio[best] = self.low
            best = max(names, key=lambda n: self.prio[n])
        return names.index(best)


class Replay:
    '''Follow a recorded list of thread names; when the recorded name is not
    enabled (divergence) fall back on the first enabled thread.'''
    name = 'replay'

    def __init__(self, choices):
        self.choices = list(choices)
        self.diverged = 0

    def pick(self, names, cur, step):
        # pylint: disable=unused-argument
        if step - 1 < len(self.choices):
            want = self.choices[step - 1]
            if want in names:
                return names.index(want)
            self.diverged += 1
        return 0


class Prefix:
    '''Follow a list of option indices, then always take option 0.  Options
    are ordered "current thread first (if enabled), then the others by name",
    so that option 0 never preempts.  Used by the bounded depth-first
    enumeration of schedules.'''
    name = 'dfs'

    def __init__(self, prefix):
        self.prefix = list(prefix)
        self.steps = []      # (number of options, current thread enabled?)

    def pick(self, names, cur, step):
        order = sorted(names, key=lambda n: (n != cur, n))
        idx = self.prefix[step - 1] if step - 1 < len(self.prefix) else 0
        idx = min(idx, len(order) - 1)
        self.steps.append((len(order), cur in names, idx))
        return names.index(order[idx])


# --------------------------------------------------------------------------

class Controller:
    '''Serialises the managed threads.'''
    # pylint: disable=too-many-instance-attributes
    STALL = 20.0

    def __init__(self, strategy, max_steps=200000):
        self.strategy = strategy
        self.mutex = _thr.Lock()
        self.recs = {}            # Thread object -> Rec
        self.order = []           # Recs in registration order
        self.trace = []           # (thread name, label) in execution order
        self.choices = []
        self.step = 0
        self.max_steps = max_steps
        self.aborted = False
        self.deadlock = None      # [(name, label)] when a deadlock was seen
        self.lost = None          # reason when control was lost
        self.current = None
        self.heartbeat = 0
        self.clock = 0
        self.counters = {}
        self._watch = None
        self._stop_watch = _thr.Event()

    # -- registration
    def register_current(self, name):
        rec = Rec(name)
        self.recs[_thr.current_thread()] = rec
        self.order.append(rec)
        self.current = name
        return rec

    def new_rec(self, name):
        rec = Rec(name)
        rec.parked = True
        rec.pred = None
        rec.label = 'start'
        self.order.append(rec)
        return rec

    def me(self):
        try:
            return self.recs[_thr.current_thread()]
        except KeyError:
            self.lost = self.lost or ('unmanaged thread '
                                      f'{_thr.current_thread().name} reached '
                                      'a cooperative primitive')
            raise LostControl(self.lost) from None

    def count(self, name):
        self.counters[name] = self.counters.get(name, 0) + 1

    # -- the heart
    def _enabled(self, rec):
        if rec.finished or not rec.parked:
            return False
        return rec.pred is None or bool(rec.pred())

    def _dispatch(self):
        '''Called with the mutex held and every managed thread parked or
        finished: choose who runs next.'''
        live = [r for r in self.order if r.parked and not r.finished]
        enabled = [r for r in live if self._enabled(r)]
        if not enabled:
            if live:
                self.deadlock = [(r.name, r.label) for r in live]
                self._abort()
            return
        self.step += 1
        if self.step > self.max_steps:
            self.lost = self.lost or f'more than {self.max_steps} steps'
            self._abort()
            return
        enabled.sort(key=lambda r: r.name)
        names = [r.name for r in enabled]
        idx = self.strategy.pick(names, self.current, self.step)
        nxt = enabled[idx]
        self.choices.append(nxt.name)
        self.current = nxt.name
        self.heartbeat += 1
        nxt.parked = False
        nxt.sem.release()

    def _abort(self):
        self.aborted = True
        for rec in self.order:
            if rec.parked and not rec.finished:
                rec.parked = False
                rec.sem.release()

    def sync(self, pred=None, label=''):
        '''Scheduling point of the calling thread.'''
        rec = self.me()
        with self.mutex:
            if self.aborted:
                raise Deadlock(label)
            rec.pred = pred
            rec.label = label
            rec.parked = True
            self._dispatch()
        rec.sem.acquire()
        if self.aborted:
            raise Deadlock(label)
        self.trace.append((rec.name, label))

    def finish(self, rec):
        '''The calling managed thread terminates.'''
        with self.mutex:
            rec.finished = True
            rec.parked = False
            if not self.aborted:
                self._dispatch()

    def drain(self):
        '''Called by the master after ``schedule()`` came back: let every
        other thread run until none of them is enabled any more.'''
        me = self.me()

        def quiescent():
            return not any(self._enabled(r) for r in self.order
                           if r is not me)
        try:
            self.sync(quiescent, 'drain')
        except Deadlock:
            pass

    def unfinished(self):
        '''(name, label) of the managed threads, other than the caller, that
        have not terminated.'''
        me = self.recs.get(_thr.current_thread())
        return [(r.name, r.label) for r in self.order
                if r is not me and not r.finished]

    def shutdown(self):
        '''Abort whatever is left so that the real threads can exit.'''
        self._stop_watch.set()
        with self.mutex:
            self._abort()

    def now(self):
        '''Logical clock: strictly increasing.'''
        self.clock += 1
        return float(self.clock)

    # -- watchdog: a managed thread blocked in a primitive we do not control
    def start_watchdog(self):
        def watch():
            last, since = self.heartbeat, _time.monotonic()
            while not self._stop_watch.wait(0.25):
                if self.heartbeat != last:
                    last, since = self.heartbeat, _time.monotonic()
                elif _time.monotonic() - since > self.STALL:
                    self.lost = self.lost or (
                        f'no scheduling point for {self.STALL}s after step '
                        f'{self.step} (current {self.current})')
                    with self.mutex:
                        self._abort()
                    return
        self._watch = _thr.Thread(target=watch, daemon=True,
                                  name='vf-watchdog')
        _REAL_START(self._watch)


# --------------------------------------------------------------------------
# cooperative primitives

class CoopRLock:
    '''Re-entrant lock (also used for plain locks: ``reentrant=False``).'''

    def __init__(self, ctl, name='L', reentrant=True):
        self.ctl = ctl
        self.name = name
        self.owner = None
        self.depth = 0
        self.reentrant = reentrant

    def _free_for(self, rec):
        return self.owner is None or (self.reentrant and self.owner is rec)

    def acquire(self, blocking=True, timeout=-1):
        rec = self.ctl.me()
        self.ctl.count('lock.acquire')
        if not blocking or (timeout is not None and timeout >= 0):
            self.ctl.sync(None, 'try:' + self.name)
            if not self._free_for(rec):
                return False
        else:
            self.ctl.sync(lambda: self._free_for(rec), 'acq:' + self.name)
        self.owner = rec
        self.depth += 1
        return True

    def release(self):
        rec = self.ctl.recs.get(_thr.current_thread())
        if self.owner is None or (self.reentrant and self.owner is not rec):
            raise RuntimeError('cannot release un-acquired lock')
        self.depth -= 1
        if self.depth == 0:
            self.owner = None

    def locked(self):
        return self.owner is not None

    def _is_owned(self):
        return self.owner is self.ctl.recs.get(_thr.current_thread())

    __enter__ = acquire

    def __exit__(self, *exc):
        self.release()


class CoopCondition:
    '''Condition variable.'''

    def __init__(self, ctl, lock=None, name='cv'):
        self.ctl = ctl
        self.name = name
        self.lock = lock if lock is not None else CoopRLock(ctl, name)
        self.waiters = []
        self.acquire = self.lock.acquire
        self.release = self.lock.release

    def __enter__(self):
        return self.lock.__enter__()

    def __exit__(self, *exc):
        return self.lock.__exit__(*exc)

    def wait(self, timeout=None):
        rec = self.ctl.me()
        self.ctl.count('cv.wait')
        lock = self.lock
        if lock.owner is not rec:
            raise RuntimeError('cannot wait on un-acquired lock')
        saved = lock.depth
        lock.depth = 0
        lock.owner = None
        rec.notified = False
        self.waiters.append(rec)
        may_time_out = timeout is not None

        def ready():
            return (rec.notified or may_time_out) and lock.owner is None
        try:
            self.ctl.sync(ready, self.name + '.wait')
        finally:
            if rec in self.waiters:
                self.waiters.remove(rec)
        lock.owner = rec
        lock.depth = saved
        return rec.notified

    def wait_for(self, predicate, timeout=None):
        result = predicate()
        while not result:
            self.wait(timeout)
            result = predicate()
            if timeout is not None:
                break
        return result

    def notify(self, n=1):
        rec = self.ctl.me()
        self.ctl.count('cv.notify')
        self.ctl.sync(None, self.name + '.notify')
        if self.lock.owner is not rec:
            raise RuntimeError('cannot notify on un-acquired lock')
        for waiter in self.waiters[:n]:
            waiter.notified = True
        del self.waiters[:n]

    def notify_all(self):
        self.notify(len(self.waiters) + 1)


class CoopEvent:
    '''threading.Event.'''

    def __init__(self, ctl):
        self.ctl = ctl
        self.flag = False

    def is_set(self):
        return self.flag

    def set(self):
        self.ctl.sync(None, 'ev.set')
        self.flag = True

    def clear(self):
        self.flag = False

    def wait(self, timeout=None):
        if timeout is None:
            self.ctl.sync(lambda: self.flag, 'ev.wait')
        else:
            self.ctl.sync(None, 'ev.wait')
        return self.flag


class CoopSemaphore:
    '''threading.Semaphore.'''

    def __init__(self, ctl, value=1):
        self.ctl = ctl
        self.value = value

    def acquire(self, blocking=True, timeout=None):
        if not blocking or timeout is not None:
            self.ctl.sync(None, 'sem.try')
            if self.value <= 0:
                return False
        else:
            self.ctl.sync(lambda: self.value > 0, 'sem.acq')
        self.value -= 1
        return True

    def release(self, n=1):
        self.value += n

    __enter__ = acquire

    def __exit__(self, *exc):
        self.release()


class CoopQueue:
    '''queue.Queue (FIFO).'''

    def __init__(self, ctl, maxsize=0):
        self.ctl = ctl
        self.maxsize = maxsize
        self.items = []
        self.unfinished_tasks = 0

    def _room(self):
        return self.maxsize <= 0 or len(self.items) < self.maxsize

    def put(self, item, block=True, timeout=None):
        self.ctl.count('q.put')
        if not block or timeout is not None:
            self.ctl.sync(None, 'q.put')
            if not self._room():
                raise _queue.Full
        else:
            self.ctl.sync(self._room, 'q.put')
        self.items.append(item)
        self.unfinished_tasks += 1

    def put_nowait(self, item):
        return self.put(item, block=False)

    def get(self, block=True, timeout=None):
        self.ctl.count('q.get')
        if not block or timeout is not None:
            self.ctl.sync(None, 'q.get')
            if not self.items:
                raise _queue.Empty
        else:
            self.ctl.sync(lambda: bool(self.items), 'q.get')
        return self.items.pop(0)

    def get_nowait(self):
        return self.get(block=False)

    def task_done(self):
        self.ctl.count('q.task_done')
        self.ctl.sync(None, 'q.done')
        if self.unfinished_tasks <= 0:
            raise ValueError('task_done() called too many times')
        self.unfinished_tasks -= 1

    def join(self):
        self.ctl.count('q.join')
        self.ctl.sync(lambda: self.unfinished_tasks == 0, 'q.join')

    def qsize(self):
        return len(self.items)

    def empty(self):
        return not self.items

    def full(self):
        return not self._room()


class ThreadingShim:
    '''Stands for the ``threading`` module inside the scheduler's module:
    synchronisation objects are cooperative, everything else is the real
    thing.'''

    def __init__(self, ctl):
        self._ctl = ctl
        self._n = 0

    def __getattr__(self, name):
        return getattr(_thr, name)

    def _name(self, kind):
        self._n += 1
        return f'{kind}{self._n}'

    def Condition(self, lock=None):  # pylint: disable=invalid-name
        self._ctl.count('shim.Condition')
        return CoopCondition(self._ctl, lock, self._name('cv'))

    def Lock(self):  # pylint: disable=invalid-name
        self._ctl.count('shim.Lock')
        return CoopRLock(self._ctl, self._name('lk'), reentrant=False)

    def RLock(self):  # pylint: disable=invalid-name
        self._ctl.count('shim.RLock')
        return CoopRLock(self._ctl, self._name('rl'))

    def Event(self):  # pylint: disable=invalid-name
        return CoopEvent(self._ctl)

    def Semaphore(self, value=1):  # pylint: disable=invalid-name
        return CoopSemaphore(self._ctl, value)

    BoundedSemaphore = Semaphore


class TimeShim:
    '''Stands for the ``time`` module inside the scheduler's module: a logical
    clock that increases strictly at every reading.'''

    def __init__(self, ctl):
        self._ctl = ctl

    def __getattr__(self, name):
        return getattr(_time, name)

    def time(self):
        self._ctl.count('shim.time')
        return self._ctl.now()

    monotonic = perf_counter = time

    def sleep(self, secs):  # pylint: disable=unused-argument
        self._ctl.sync(None, 'sleep')


def explore_dfs(run_once, max_preempt=2, max_runs=20000):
    '''Depth-first enumeration of all schedules with at most `max_preempt`
    preemptions.  `run_once(strategy)` must execute one run under the given
    ``Prefix`` strategy.  Returns (number of runs, complete?).'''
    stack = [[]]
    runs = 0
    while stack:
        if runs >= max_runs:
            return runs, False
        prefix = stack.pop()
        strat = Prefix(prefix)
        run_once(strat)
        runs += 1
        steps = strat.steps
        taken = [s[2] for s in steps]
        # preemptions used up to each step
        used = 0
        pre = []
        for (nopt, cur_en, idx) in steps:
            pre.append(used)
            if cur_en and idx != 0:
                used += 1
        for pos in range(len(prefix), len(steps)):
            nopt, cur_en, _ = steps[pos]
            for alt in range(1, nopt):
                cost = pre[pos] + (1 if cur_en else 0)
                if cost <= max_preempt:
                    stack.append(taken[:pos] + [alt])
    return runs, True
