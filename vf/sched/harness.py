'''Probe tasks, recording environment and the two execution engines (controlled
and stress) that drive the real ``Scheduler`` / ``QueueScheduling``.

A *case* is a JSON-able dictionary::

    {'tasks': ['t0', 't1', ...],            # creation order
     'hard': {'t1': ['t0'], ...},           # hard dependencies
     'soft': {'t2': ['t0'], ...},           # soft dependencies
     'outcomes': {'t0': 'ok', ...},         # scripted outcome per task
     'workers': 2,
     'init': {'t0': 'DONE', ...}}           # optional initial entries
'''
import copy
import sys
import threading
import time
from collections.abc import Mapping

from vf import core, steps
from vf.sched import controller as ctlmod

OK_KINDS = ('ok', 'ok_none', 'ok_int_status', 'ok_echo')
FAIL_KINDS = ('raise', 'failed')
MALFORMED_KINDS = ('none', 'notpair3', 'notpair0', 'int', 'badstatus',
                   'badstatus_int', 'badupdate', 'badupdate_list', 'conflict',
                   'badupdate_empty_list', 'badupdate_zero',
                   'badupdate_empty_str', 'status_plain_1', 'status_plain_2',
                   'status_true', 'status_float_2', 'own_entry_nonmapping',
                   'systemexit')
NONFINAL_KINDS = ('nonfinal_waiting', 'nonfinal_pending')


def diff_update(update, env, path=()):
    '''Leaves of `update` that are missing from / different in `env`.'''
    out = []
    for key, val in update.items():
        try:
            cur = env[key]
        except (KeyError, TypeError):
            out.append(path + (key,))
            continue
        if isinstance(val, Mapping):
            if isinstance(cur, Mapping):
                out.extend(diff_update(val, cur, path + (key,)))
            else:
                out.append(path + (key,))
        elif cur != val:
            out.append(path + (key,))
    return out


class Monitor:
    '''Shared state of the probes of one history of runs.'''
    # pylint: disable=too-many-instance-attributes

    def __init__(self, ctl=None):
        self.ctl = ctl
        self.lock = threading.Lock()
        self.clock = 0
        self.events = []
        self.run_no = 0
        self.exec_run = {}       # name -> executions in the current run
        self.exec_total = 0
        self.own_before = {}     # name -> its own entry when it started
        self.returned = {}       # name -> update returned by the last DONE
        self.outcomes = {}
        self.start_violations = []
        self.starts = 0
        self.reads = 0
        self.payload_reads = 0
        self.delay = None        # callable -> seconds (stress layer)
        self.nonfinal_seen = 0

    def tick(self):
        with self.lock:
            self.clock += 1
            return self.clock

    def log(self, kind, name, data=None):
        with self.lock:
            self.clock += 1
            self.events.append((self.clock, threading.current_thread().name,
                                kind, name, data))

    def new_run(self, outcomes):
        self.run_no += 1
        self.exec_run = {}
        self.outcomes = dict(outcomes)

    def on_start(self, task, env):
        '''First instruction of the execution of `task`.'''
        from valjean.cosette.task import TaskStatus
        final = (TaskStatus.DONE, TaskStatus.FAILED, TaskStatus.SKIPPED)
        with self.lock:
            self.exec_run[task.name] = self.exec_run.get(task.name, 0) + 1
            self.exec_total += 1
            self.starts += 1
            exec_no = self.exec_total
        reads = []
        deps = ([(d, 'hard') for d in task.depends_on]
                + [(d, 'soft') for d in task.soft_depends_on])
        for dep, kind in sorted(deps, key=lambda x: (x[0].name, x[1])):
            try:
                entry = env[dep.name]
                status = entry.get('status')
            except (KeyError, AttributeError):
                entry, status = None, None
            is_final = any(status is f or (isinstance(status, int)
                                           and status == f) for f in final)
            bad = None
            if not is_final:
                bad = ('dep-not-final', f'{task.name} started while its '
                       f'{kind} dependency {dep.name} had status {status!r}')
            elif status == TaskStatus.DONE:
                ret = self.returned.get(dep.name)
                if ret is not None and not self.exec_run.get(dep.name):
                    # finished in an earlier run: only its own entry is
                    # carried over (DONE entries are merged, nothing else)
                    ret = {k: v for k, v in ret.items() if k == dep.name}
                if ret is not None:
                    with self.lock:
                        self.payload_reads += 1
                    missing = diff_update(ret, env)
                    if missing:
                        bad = ('payload-missing', f'{task.name} started while '
                               f'the update returned by its DONE {kind} '
                               f'dependency {dep.name} was not readable: '
                               f'{missing[:3]}')
            with self.lock:
                self.reads += 1
            reads.append((dep.name, kind, repr(status)))
            if bad:
                with self.lock:
                    self.start_violations.append(bad)
        # what the environment held for the task itself when it started
        try:
            own = env[task.name]
            self.own_before[task.name] = dict(own) if isinstance(
                own, Mapping) else {}
        except (KeyError, TypeError):
            self.own_before[task.name] = {}
        self.log('start', task.name, {'exec': exec_no, 'reads': reads})
        return exec_no

    def produce(self, task, exec_no):
        '''The scripted outcome of this execution.'''
        from valjean.cosette.task import TaskStatus
        kind = self.outcomes.get(task.name, 'ok')
        name = task.name
        self.log('end', name, kind)
        if kind == 'ok':
            upd = {name: {'payload': [name, self.run_no, exec_no],
                          'blob': {'a': {'b': exec_no, 'c': name},
                                   'l': [exec_no, 2]}}}
            if task.outdir:
                upd[name]['output_dir'] = task.outdir
            # updates are arbitrary mappings: also a key that is not the
            # task's own name
            upd['extra of ' + name] = {'v': exec_no, 'n': {'m': name}}
            self.returned[name] = copy.deepcopy(upd)
            return upd, TaskStatus.DONE
        if kind == 'ok_echo':
            # the update starts from the task's previous record (clocks of
            # its previous execution included) and adds the new results
            entry = {k: copy.deepcopy(v) for k, v in
                     self.own_before.get(name, {}).items() if k != 'status'}
            entry['payload'] = [name, self.run_no, exec_no]
            if task.outdir:
                entry['output_dir'] = task.outdir
            upd = {name: entry}
            self.returned[name] = {name: {'payload': entry['payload']}}
            return upd, TaskStatus.DONE
        if kind == 'ok_none':
            self.returned[name] = {}
            return None, TaskStatus.DONE
        if kind == 'failed':
            return {name: {'why': ['failed', exec_no]}}, TaskStatus.FAILED
        if kind == 'raise':
            raise RuntimeError(f'scripted failure of {name}')
        if kind == 'none':
            return None
        if kind == 'notpair3':
            return ({}, TaskStatus.DONE, 3)
        if kind == 'notpair0':
            return ()
        if kind == 'int':
            return 5
        if kind == 'badstatus':
            return {name: {'x': 1}}, 'zz'
        if kind == 'badstatus_int':
            return {}, 17
        if kind == 'badupdate':
            return 7, TaskStatus.DONE
        if kind == 'badupdate_list':
            return [1, 2], TaskStatus.DONE
        if kind == 'ok_int_status':
            # the value of TaskStatus.DONE as a plain integer
            self.returned[name] = {}
            return {}, int(TaskStatus.DONE)
        if kind == 'own_entry_nonmapping':
            # a mapping, but it replaces the task's own entry by a string
            return {name: 'oops'}, TaskStatus.DONE
        if kind == 'systemexit':
            raise SystemExit(3)
        if kind == 'status_plain_1':      # == WAITING: not a final status
            return {}, 1
        if kind == 'status_plain_2':      # == PENDING
            return {}, 2
        if kind == 'status_true':         # True == 1 == WAITING
            return {}, True
        if kind == 'status_float_2':
            return {}, 2.0
        if kind == 'badupdate_empty_list':     # falsy, still not a mapping
            return [], TaskStatus.DONE
        if kind == 'badupdate_zero':
            return 0, TaskStatus.DONE
        if kind == 'badupdate_empty_str':
            return '', TaskStatus.DONE
        if kind == 'conflict':
            # a mapping that cannot be merged into the environment: the
            # entry of the task holds a non-mapping under that key
            return {name: {'status': {'x': 1}}}, TaskStatus.DONE
        if kind == 'nonfinal_waiting':
            return {}, TaskStatus.WAITING
        if kind == 'nonfinal_pending':
            return {}, TaskStatus.PENDING
        raise AssertionError(kind)


def make_probe_class():
    '''ProbeTask is created lazily so that valjean is imported from the tree
    under test.'''
    from valjean.cosette.task import Task

    class ProbeTask(Task):
        '''Task with a scripted outcome that records what it can read when
        it starts.'''

        def __init__(self, name, mon, outdir=None):
            super().__init__(name)
            self.mon = mon
            self.outdir = outdir

        def do(self, env, config):
            mon = self.mon
            exec_no = mon.on_start(self, env)
            if mon.ctl is not None:
                mon.ctl.sync(None, 'do:' + self.name)
            elif mon.delay is not None:
                secs = mon.delay()
                if secs:
                    time.sleep(secs)
            return mon.produce(self, exec_no)

    class FalsyProbeTask(ProbeTask):
        '''A task object whose truth value is false (e.g. a task that is also
        an empty container).'''

        def __bool__(self):
            return False

        def __len__(self):
            return 0

    ProbeTask.Falsy = FalsyProbeTask
    return ProbeTask


_PROBE = []


def probe_class():
    if not _PROBE:
        _PROBE.append(make_probe_class())
    return _PROBE[0]


def make_env_class():
    from valjean.cosette.env import Env

    class RecordingEnv(Env):
        '''History of the operations on the environment, recorded at its
        boundary after the real method returned.'''
        mon = None
        after = None       # callable run after each recorded operation

        def _rec(self, kind, name, data=None):
            mon = self.mon
            if mon is not None:
                mon.log(kind, name, data)
                if self.after is not None and not self._held():
                    self.after()

        def _held(self):
            try:
                return self.lock._is_owned()  # pylint: disable=W0212
            except AttributeError:
                return False

        def set_status(self, task, status):
            super().set_status(task, status)
            self._rec('set_status', task.name, repr(status))

        def apply(self, env_update):
            super().apply(env_update)
            if isinstance(env_update, Mapping):
                self._rec('apply', ','.join(map(str, env_update)))
            else:
                self._rec('apply', repr(env_update))

    return RecordingEnv


_ENV = []


def env_class():
    if not _ENV:
        _ENV.append(make_env_class())
    return _ENV[0]


def build(case, mon, outroot=None):
    '''Tasks and graphs of a case.  Returns (tasks by name, hard, soft).'''
    from valjean.cosette.depgraph import DepGraph
    cls = probe_class()
    tasks = {}
    for name in case['tasks']:
        outdir = f'{outroot}/{name}' if outroot else None
        kls = cls.Falsy if name in case.get('falsy', ()) else cls
        tasks[name] = kls(name, mon, outdir)
    for name, deps in case.get('hard', {}).items():
        for dep in deps:
            tasks[name].depends_on.add(tasks[dep])
    for name, deps in case.get('soft', {}).items():
        for dep in deps:
            tasks[name].soft_depends_on.add(tasks[dep])
    hard, soft = DepGraph(), DepGraph()
    groups = case.get('groups')
    if groups:
        subs = []
        hard = nested_hard_graph(case, tasks, subs)
        soft = flat_soft(case, tasks)
        # group-level soft edges (only used around empty groups): the same
        # sub-graph objects are nodes of both graphs
        for gidx, deps in case.get('gsoft', {}).items():
            for dep in deps:
                soft.add_dependency(subs[int(gidx)], on=subs[dep])
        return tasks, hard, soft
    for name in case['tasks']:
        hard.add_node(tasks[name])
        soft.add_node(tasks[name])
    for name in case['tasks']:
        for dep in sorted(case.get('hard', {}).get(name, [])):
            hard.add_dependency(tasks[name], on=tasks[dep])
        for dep in sorted(case.get('soft', {}).get(name, [])):
            soft.add_dependency(tasks[name], on=tasks[dep])
    return tasks, hard, soft


def flat_soft(case, tasks):
    from valjean.cosette.depgraph import DepGraph
    soft = DepGraph()
    for name in case['tasks']:
        soft.add_node(tasks[name])
    # 'soft_direct': the soft edges given task by task (case['soft'] may also
    # hold what group-level edges mean)
    direct = case.get('soft_direct', case.get('soft', {}))
    inside = set(case.get('sgroup') or ())
    sub = None
    if len(inside) >= 2:
        # some tasks sit in a sub-graph of the *soft* graph, with the soft
        # edges between them (same edges as the flat graph once flattened)
        sub = DepGraph()
        for name in case['tasks']:
            if name in inside:
                sub.add_node(tasks[name])
        soft.add_node(sub)
    for name in case['tasks']:
        for dep in sorted(direct.get(name, [])):
            if sub is not None and name in inside and dep in inside:
                sub.add_dependency(tasks[name], on=tasks[dep])
            else:
                soft.add_dependency(tasks[name], on=tasks[dep])
    return soft


def nested_hard_graph(case, tasks, subs=None):
    '''Hard graph whose nodes are sub-graphs (``case['groups']``: lists of
    task names; ``case['ghard']``: group index -> indices of the groups it
    depends on).  ``case['hard']`` already holds, task by task, what the
    nesting means: the edges inside a group, plus every task of a group
    depending on every task of the groups its group depends on.'''
    from valjean.cosette.depgraph import DepGraph
    outer = DepGraph()
    subs = [] if subs is None else subs
    for members in case['groups']:
        sub = DepGraph()
        inside = set(members)
        for name in members:
            sub.add_node(tasks[name])
        for name in members:
            for dep in sorted(case['hard'].get(name, [])):
                if dep in inside:
                    sub.add_dependency(tasks[name], on=tasks[dep])
        subs.append(sub)
    # sub-graphs that are nodes of other sub-graphs (possibly of several)
    for gidx, inner in case.get('gmembers', {}).items():
        for idx in inner:
            subs[int(gidx)].add_node(subs[idx])
    # the order in which the sub-graphs enter the outer graph is part of the
    # case (dependent groups may come before the groups they depend on)
    for gidx in case.get('gorder', range(len(subs))):
        outer.add_node(subs[gidx])
    for gidx, deps in case.get('ghard', {}).items():
        for dep in deps:
            outer.add_dependency(subs[int(gidx)], on=subs[dep])
    return outer


def nest(rng, case):
    '''Turn the hard edges of a generated DAG into a nested graph: tasks are
    grouped by consecutive index ranges, edges inside a group are kept, edges
    between groups become group-level dependencies (which means: every task
    of the later group depends on every task of the earlier one).'''
    names = sorted(case['tasks'], key=lambda n: int(n[1:]))
    if len(names) < 2:
        return case
    ngroups = rng.randint(2, min(3, len(names)))
    cuts = sorted(rng.sample(range(1, len(names)), ngroups - 1))
    groups, prev = [], 0
    for cut in cuts + [len(names)]:
        groups.append(names[prev:cut])
        prev = cut
    gof = {n: i for i, grp in enumerate(groups) for n in grp}
    ghard = {}
    hard = {}
    for name, deps in case['hard'].items():
        for dep in deps:
            if gof[dep] == gof[name]:
                hard.setdefault(name, []).append(dep)
            else:
                ghard.setdefault(gof[name], set()).add(gof[dep])
    for gidx, deps in ghard.items():
        for name in groups[gidx]:
            for dep in deps:
                hard.setdefault(name, []).extend(groups[dep])
    case['hard'] = {n: sorted(set(d)) for n, d in hard.items()}
    # soft edges must not contradict the new hard order
    case['soft'] = {n: [d for d in deps if d not in case['hard'].get(n, [])]
                    for n, deps in case['soft'].items()}
    gsoft = {}
    if rng.random() < 0.4:
        # an empty group used as a node between two groups: b -> E -> a, each
        # edge hard or soft.  An empty node is transparent: b comes after a;
        # the ordering is a hard dependency only if both edges are hard.
        aidx, bidx = sorted(rng.sample(range(len(groups)), 2))
        case['soft_direct'] = {n: list(d) for n, d in case['soft'].items()}
        eidx = len(groups)
        groups.append([])
        kind_be, kind_ea = rng.choice(['hard', 'soft']), \
            rng.choice(['hard', 'soft'])
        (ghard if kind_be == 'hard' else gsoft).setdefault(
            bidx, set()).add(eidx)
        (ghard if kind_ea == 'hard' else gsoft).setdefault(
            eidx, set()).add(aidx)
        both_hard = kind_be == kind_ea == 'hard'
        for name in groups[bidx]:
            if both_hard:
                hard[name] = sorted(set(hard.get(name, []))
                                    | set(groups[aidx]))
            else:
                case['soft'][name] = sorted(
                    set(case['soft'].get(name, [])) | set(groups[aidx]))
        case['hard'] = {n: sorted(set(d)) for n, d in hard.items()}
        case['soft'] = {n: [d for d in deps
                            if d not in case['hard'].get(n, [])]
                        for n, deps in case['soft'].items()}
        case['empty_group'] = [kind_be, kind_ea]
    case['groups'] = groups
    order = list(range(len(groups)))
    rng.shuffle(order)
    case['gorder'] = order
    case['ghard'] = {str(g): sorted(d) for g, d in ghard.items()}
    case['gsoft'] = {str(g): sorted(d) for g, d in gsoft.items()}
    return case


def status_map(env, names):
    '''Readable status of every task (name -> str).'''
    out = {}
    for name in names:
        try:
            status = env[name].get('status')
        except (KeyError, AttributeError):
            out[name] = 'ABSENT'
            continue
        out[name] = getattr(status, 'name', repr(status))
    return out


def fill_init(env, case):
    '''Initial entries of the environment (C03: entries of earlier runs).'''
    from valjean.cosette.task import TaskStatus
    for name, status in case.get('init', {}).items():
        entry = {'status': TaskStatus[status]}
        if status == 'DONE':
            entry.update(payload=[name, 0, 0], start_clock=-2.0,
                         end_clock=-1.0)
        env[name] = entry


class Result:
    '''What one run showed.'''
    # pylint: disable=too-few-public-methods,too-many-instance-attributes

    def __init__(self):
        self.outcome = None        # 'returned' | 'raised:<Type>' | 'deadlock'
        self.error = None          #   | 'lost'
        self.statuses = {}
        self.exec_run = {}
        self.leaked = []
        self.alive_at_return = []
        self.deaths = []
        self.queue_left = None
        self.trace_hash = None
        self.choices = []
        self.steps = 0
        self.deadlock = None
        self.lost = None
        self.start_violations = []
        self.counters = {}
        self.env = None
        self.mon = None
        self.hist_hash = None
        self.first_error = None
        self.build_steps = 0
        self.backend = None


# --------------------------------------------------------------------------
# controlled engine

class _Patches:
    '''Installs the cooperative primitives around one controlled run.'''

    def __init__(self, ctl):
        self.ctl = ctl
        self.saved = None
        self.workers = []
        self.deaths = []

    def __enter__(self):
        import valjean.cosette.backends.queue as qmod
        ctl = self.ctl
        real_start = threading.Thread.start
        real_join = threading.Thread.join
        self.saved = (qmod, qmod.threading, qmod.time, qmod.Queue, real_start,
                      real_join)
        patches = self

        def start(thread):
            if threading.current_thread() not in ctl.recs:
                return real_start(thread)
            rec = ctl.new_rec(f'w{len(patches.workers)}')
            patches.workers.append(thread)
            ctl.recs[thread] = rec
            ctl.count('thread.start')
            real_run = thread.run

            def run():
                rec.sem.acquire()
                try:
                    if not ctl.aborted:
                        real_run()
                except ctlmod.Deadlock:
                    pass
                except BaseException as err:  # pylint: disable=broad-except
                    rec.died = err
                    patches.deaths.append((rec.name, type(err).__name__,
                                           str(err)[:200]))
                finally:
                    ctl.finish(rec)
            thread.run = run
            real_start(thread)
            ctl.sync(None, 'thread.start')
            return None

        def join(thread, timeout=None):
            rec = ctl.recs.get(thread)
            if rec is None or threading.current_thread() not in ctl.recs:
                return real_join(thread, timeout)
            ctl.count('thread.join')
            if timeout is None:
                ctl.sync(lambda: rec.finished, 'thread.join')
                return real_join(thread, 5.0)
            ctl.sync(None, 'thread.join')
            return None

        threading.Thread.start = start
        threading.Thread.join = join
        qmod.threading = ctlmod.ThreadingShim(ctl)
        qmod.time = ctlmod.TimeShim(ctl)
        qmod.Queue = lambda maxsize=0: ctlmod.CoopQueue(ctl, maxsize)
        return self

    def __exit__(self, *exc):
        qmod, thr, tim, que, real_start, real_join = self.saved
        qmod.threading, qmod.time, qmod.Queue = thr, tim, que
        threading.Thread.start = real_start
        threading.Thread.join = real_join
        return False


def rewire(case, tasks):
    '''Graphs of `case` over already existing task objects (their dependency
    sets are rewritten).'''
    from valjean.cosette.depgraph import DepGraph
    for name in case['tasks']:
        tasks[name].depends_on = {tasks[d] for d in
                                  case.get('hard', {}).get(name, [])}
        tasks[name].soft_depends_on = {tasks[d] for d in
                                       case.get('soft', {}).get(name, [])}
    hard, soft = DepGraph(), DepGraph()
    for name in case['tasks']:
        hard.add_node(tasks[name])
        soft.add_node(tasks[name])
    for name in case['tasks']:
        for dep in sorted(case.get('hard', {}).get(name, [])):
            hard.add_dependency(tasks[name], on=tasks[dep])
        for dep in sorted(case.get('soft', {}).get(name, [])):
            soft.add_dependency(tasks[name], on=tasks[dep])
    return hard, soft


_debug_logging = core.debug_logging


def run_controlled(case, strategy, mon=None, env=None, tasks_graphs=None,
                   max_steps=100000, clock0=0, fine=None, repeat=1,
                   then=None, then_always=False, backend=None,
                   debug_log=False):
    '''One run of the real scheduler under the controller.'''
    # pylint: disable=too-many-locals,too-many-statements
    import valjean.cosette.backends.queue as qmod
    from valjean.cosette.scheduler import Scheduler
    ctl = ctlmod.Controller(strategy, max_steps=max_steps)
    ctl.clock = clock0
    if mon is None:
        mon = Monitor()
    mon.ctl = ctl
    mon.new_run(case['outcomes'])
    res = Result()
    res.mon = mon
    if tasks_graphs is None:
        tasks_graphs = build(case, mon)
    tasks, hard, soft = tasks_graphs
    if env is None:
        env = env_class()()
        fill_init(env, case)
    env.mon = mon
    env.lock = ctlmod.CoopRLock(ctl, 'env')
    res.env = env
    before = len(mon.start_violations)
    patches = _Patches(ctl)
    remove_lines, line_hits = (lambda: None), [0, 0]
    if fine:
        # fine-grained mode: a share of the source lines of queue.py and
        # env.py executed by managed threads become scheduling points too
        # (`fine` = (random.Random, probability))
        def line_point(line):
            if not ctl.aborted and threading.current_thread() in ctl.recs:
                ctl.sync(None, f'line:{line}')
        remove_lines, line_hits = _yield_injection(fine[0], fine[1],
                                                   action=line_point)
    with patches, _debug_logging(debug_log):
        if backend is None:
            backend = qmod.QueueScheduling(n_workers=case['workers'])
        else:
            # a backend object that served earlier runs (its work queue is
            # re-created: cooperative primitives belong to one controller)
            backend.n_workers = case['workers']
            backend.queue = ctlmod.CoopQueue(ctl)
        if not isinstance(backend.queue, ctlmod.CoopQueue):
            backend.queue = ctlmod.CoopQueue(ctl)
        res.backend = backend
        ctl.register_current('M')
        ctl.start_watchdog()
        try:
            try:
                # building the scheduler (copy, flatten, merge of the graphs)
                # is part of the call: it has no scheduling point, so its
                # termination is decided by a logical step budget
                counter = steps.get()
                size = len(case['tasks']) + len(case.get('groups', ())) + 10
                counter.start(budget=200000 + 400 * size * size)
                try:
                    sched = Scheduler(hard_graph=hard, soft_graph=soft,
                                      backend=backend)
                finally:
                    res.build_steps = counter.stop()
                try:
                    sched.schedule(env=env)
                except (ctlmod.LostControl, steps.StepBudget):
                    raise
                except Exception as err:  # pylint: disable=broad-except
                    if not (then_always and then is not None):
                        raise
                    # the call came back with an error: the same backend is
                    # used again below
                    res.first_error = repr(err)[:200]
                for _ in range(repeat - 1):
                    # the same Scheduler object (same backend) used again,
                    # on the environment it has just produced
                    mon.new_run(case['outcomes'])
                    sched.schedule(env=env)
                if then is not None:
                    # the same backend object and the same task objects,
                    # another graph and other outcomes, a fresh environment
                    res.first_statuses = status_map(env, case['tasks'])
                    res.first_exec = dict(mon.exec_run)
                    hard2, soft2 = rewire(then, tasks)
                    env = env_class()()
                    env.mon = mon
                    env.lock = ctlmod.CoopRLock(ctl, 'env2')
                    res.env = env
                    mon.new_run(then['outcomes'])
                    Scheduler(hard_graph=hard2, soft_graph=soft2,
                              backend=backend).schedule(env=env)
                    case = then
                res.outcome = 'returned'
            except ctlmod.Deadlock:
                res.outcome = 'deadlock'
            except ctlmod.LostControl as err:
                res.outcome = 'lost'
                res.lost = str(err)
            except steps.StepBudget as err:
                res.outcome = 'build-budget'
                res.error = str(err)
            except Exception as err:  # pylint: disable=broad-except
                res.outcome = 'raised:' + type(err).__name__
                res.error = repr(err)[:300]
            if ctl.lost:
                res.outcome = 'lost'
                res.lost = ctl.lost
            # census at the moment the call comes back, then after the
            # remaining threads ran to quiescence
            res.alive_at_return = [] if ctl.aborted else ctl.unfinished()
            if not ctl.aborted:
                ctl.drain()
            res.leaked = ctl.unfinished()
            queue = backend.queue
            res.queue_left = (len(getattr(queue, 'items', ())),
                              getattr(queue, 'unfinished_tasks', 0))
            if ctl.deadlock and res.outcome != 'lost':
                res.outcome = 'deadlock'
                res.deadlock = ctl.deadlock
            if ctl.lost:
                res.outcome = 'lost'
                res.lost = ctl.lost
        finally:
            ctl.shutdown()
            remove_lines()
    for thread in patches.workers:
        thread.join(5.0)
    env.lock = threading.RLock()
    mon.ctl = None
    res.deaths = patches.deaths
    res.statuses = status_map(env, case['tasks'])
    res.exec_run = dict(mon.exec_run)
    res.trace_hash = core.h(ctl.trace)
    res.choices = ctl.choices
    res.steps = ctl.step
    res.start_violations = mon.start_violations[before:]
    res.counters = dict(ctl.counters)
    if fine:
        res.counters['line_events'] = line_hits[0]
        res.counters['line_scheduling_points'] = line_hits[1]
    res.clock = ctl.clock
    return res


# --------------------------------------------------------------------------
# stress engine (real primitives)

_TOOL = [None]


def _yield_injection(rng, prob, action=None):
    '''sys.monitoring LINE callback on the scheduler's and the environment's
    code objects: with probability `prob`, sleep(0) / tiny sleeps (stress
    layer) or `action(line)` (controlled engine: a scheduling point).
    Returns a function that removes it and a counter list.'''
    import valjean.cosette.backends.queue as qmod
    import valjean.cosette.env as emod
    mon = sys.monitoring
    tool = mon.PROFILER_ID
    hits = [0, 0]
    files = {qmod.__file__, emod.__file__}

    def codes_of(module):
        out, todo = [], [v for v in vars(module).values()]
        seen = set()
        while todo:
            obj = todo.pop()
            if id(obj) in seen:
                continue
            seen.add(id(obj))
            code = getattr(obj, '__code__', None)
            if code is not None and code.co_filename in files:
                out.append(code)
                todo.extend(c for c in code.co_consts
                            if hasattr(c, 'co_code'))
            if isinstance(obj, type) and obj.__module__ == module.__name__:
                todo.extend(vars(obj).values())
            if hasattr(obj, 'co_code') and obj.co_filename in files:
                out.append(obj)
                todo.extend(c for c in obj.co_consts if hasattr(c, 'co_code'))
            for attr in ('__func__', '__wrapped__', 'fget'):
                sub = getattr(obj, attr, None)
                if sub is not None:
                    todo.append(sub)
        return out

    def on_line(code, line):  # pylint: disable=unused-argument
        hits[0] += 1
        rnd = rng.random()
        if rnd < prob:
            hits[1] += 1
            if action is not None:
                action(line)
            else:
                time.sleep(0 if rnd < prob * 0.7 else 0.0002)

    try:
        mon.use_tool_id(tool, 'vf-yield')
    except ValueError:
        return (lambda: None), hits
    mon.register_callback(tool, mon.events.LINE, on_line)
    codes = codes_of(qmod) + codes_of(emod)
    for code in codes:
        try:
            mon.set_local_events(tool, code, mon.events.LINE)
        except (ValueError, TypeError):
            pass

    def remove():
        for code in codes:
            try:
                mon.set_local_events(tool, code, 0)
            except (ValueError, TypeError):
                pass
        mon.register_callback(tool, mon.events.LINE, None)
        mon.free_tool_id(tool)
    return remove, hits


def parked_in_primitives(threads):
    '''True when every given live thread is blocked in a blocking primitive
    of the standard library (threading / queue).'''
    frames = sys._current_frames()  # pylint: disable=protected-access
    states = []
    for thread in threads:
        frame = frames.get(thread.ident)
        if frame is None:
            continue
        fname = frame.f_code.co_filename
        func = frame.f_code.co_name
        blocked = (fname.endswith(('threading.py', 'queue.py'))
                   and func in ('wait', 'acquire', 'get', 'join', 'put',
                                '_wait_for_tstate_lock'))
        states.append((thread.name, fname.rsplit('/', 1)[-1], func,
                       frame.f_lineno, blocked))
    return states


def run_stress(case, rng, mon=None, env=None, tasks_graphs=None,
               inject=0.0, delays=True, timeout=60.0):
    '''One run with the real primitives, perturbed.'''
    # pylint: disable=too-many-locals,too-many-statements,too-many-branches
    import valjean.cosette.backends.queue as qmod
    from valjean.cosette.scheduler import Scheduler
    if mon is None:
        mon = Monitor()
    mon.ctl = None
    mon.new_run(case['outcomes'])
    dlock = threading.Lock()

    def small_delay():
        with dlock:
            rnd = rng.random()
        if rnd < 0.5:
            return 0
        return (rnd - 0.5) * 0.004

    mon.delay = small_delay if delays else None
    res = Result()
    res.mon = mon
    if tasks_graphs is None:
        tasks_graphs = build(case, mon)
    tasks, hard, soft = tasks_graphs
    if env is None:
        env = env_class()()
        fill_init(env, case)
    env.mon = mon
    if delays:
        def after():
            secs = small_delay()
            if secs:
                time.sleep(secs)
            else:
                time.sleep(0)
        env.after = after
    res.env = env
    before_viol = len(mon.start_violations)
    threads_before = set(threading.enumerate())
    old_switch = sys.getswitchinterval()
    sys.setswitchinterval(1e-6)
    remove, hits = (lambda: None), [0, 0]
    if inject:
        remove, hits = _yield_injection(rng, inject)
    done = threading.Event()
    box = {}

    def driver():
        try:
            backend = qmod.QueueScheduling(n_workers=case['workers'])
            box['backend'] = backend
            sched = Scheduler(hard_graph=hard, soft_graph=soft,
                              backend=backend)
            sched.schedule(env=env)
            box['outcome'] = 'returned'
        except Exception as err:  # pylint: disable=broad-except
            box['outcome'] = 'raised:' + type(err).__name__
            box['error'] = repr(err)[:300]
        finally:
            box['alive_at_return'] = [
                t.name for t in threading.enumerate()
                if t not in threads_before
                and t is not threading.current_thread() and t.is_alive()]
            done.set()

    drv = threading.Thread(target=driver, name='M', daemon=True)
    t_0 = time.monotonic()
    drv.start()
    hung = None
    try:
        while not done.wait(0.5):
            if time.monotonic() - t_0 > timeout:
                hung = 'timeout'
                break
            if time.monotonic() - t_0 > 3.0:
                # logical evidence of a deadlock: every participant parked in
                # a blocking primitive and no event recorded, 4 samples
                stable = True
                last = mon.clock
                for _ in range(4):
                    parts = [t for t in threading.enumerate()
                             if t not in threads_before]
                    states = parked_in_primitives(parts)
                    if (not states or not all(s[4] for s in states)
                            or mon.clock != last):
                        stable = False
                        break
                    time.sleep(0.25)
                if stable:
                    hung = 'deadlock'
                    res.deadlock = [list(s[:4]) for s in states]
                    break
    finally:
        remove()
        sys.setswitchinterval(old_switch)
        env.after = None
        mon.delay = None
    if hung is None:
        res.outcome = box.get('outcome')
        res.error = box.get('error')
        drv.join(5.0)
        # census: worker threads still alive after a grace period
        deadline = time.monotonic() + 2.0
        left = []
        while True:
            left = [t for t in threading.enumerate()
                    if t not in threads_before and t is not drv
                    and t.is_alive()]
            if not left or time.monotonic() > deadline:
                break
            time.sleep(0.02)
        res.leaked = [(t.name, 'alive') for t in left]
        res.alive_at_return = [(n, 'alive') for n in
                               box.get('alive_at_return', [])]
        backend = box.get('backend')
        if backend is not None:
            queue = backend.queue
            res.queue_left = (queue.qsize(),
                              getattr(queue, 'unfinished_tasks', 0))
            # release leaked workers so that the shard can go on
            for _ in left:
                try:
                    queue.put(None)
                except Exception:  # pylint: disable=broad-except
                    pass
    elif hung == 'deadlock':
        res.outcome = 'deadlock'
    else:
        res.outcome = 'lost'
        res.lost = 'wall-clock watchdog fired without logical evidence'
    res.statuses = status_map(env, case['tasks'])
    res.exec_run = dict(mon.exec_run)
    res.start_violations = mon.start_violations[before_viol:]
    res.counters = {'inject_lines': hits[0], 'inject_yields': hits[1]}
    res.hist_hash = core.h([(e[2], e[3], e[4]) for e in mon.events[-400:]])
    res.trace_hash = res.hist_hash
    return res


# --------------------------------------------------------------------------
# reference model

def reference(case):
    '''Sequential reference scheduler: (status map, executions) from an empty
    environment.'''
    order = topo(case)
    status, execs = {}, {}
    for name in order:
        hard = case.get('hard', {}).get(name, [])
        if any(status[d] in ('FAILED', 'SKIPPED') for d in hard):
            status[name] = 'SKIPPED'
            execs[name] = 0
        else:
            execs[name] = 1
            kind = case['outcomes'].get(name, 'ok')
            status[name] = 'DONE' if kind in OK_KINDS else 'FAILED'
    return status, execs


def topo(case):
    '''Topological order of the union graph (Kahn); raises ValueError on a
    cycle.'''
    deps = {n: set(case.get('hard', {}).get(n, []))
            | set(case.get('soft', {}).get(n, [])) for n in case['tasks']}
    order, ready = [], [n for n in case['tasks'] if not deps[n]]
    done = set()
    while ready:
        name = ready.pop(0)
        order.append(name)
        done.add(name)
        for other in case['tasks']:
            if other not in done and other not in ready and \
                    deps[other] <= done:
                ready.append(other)
    if len(order) != len(case['tasks']):
        raise ValueError('cycle')
    return order


def is_cyclic(case):
    try:
        topo(case)
    except ValueError:
        return True
    return False


# --------------------------------------------------------------------------
# generators

def gen_dag(rng, ntasks, p_hard=0.3, p_soft=0.15):
    names = [f't{i}' for i in range(ntasks)]
    hard, soft = {}, {}
    for i, name in enumerate(names):
        for j in range(i):
            rnd = rng.random()
            if rnd < p_hard:
                hard.setdefault(name, []).append(names[j])
            elif rnd < p_hard + p_soft:
                soft.setdefault(name, []).append(names[j])
    # creation order is shuffled so that the submission order is not the
    # index order
    order = names[:]
    rng.shuffle(order)
    case = {'tasks': order, 'hard': hard, 'soft': soft}
    if ntasks >= 2 and rng.random() < 0.2:
        case['sgroup'] = sorted(rng.sample(names, rng.randint(2, ntasks)))
    if rng.random() < 0.1:
        # task objects whose truth value is false
        case['falsy'] = rng.sample(names, rng.randint(1, min(2, ntasks)))
    return case


def gen_dag_over(rng, names, p_hard=0.3, p_soft=0.15):
    '''A random DAG over the given task names (any subset of the tasks of an
    earlier graph, in any order).'''
    names = list(names)
    rng.shuffle(names)
    sub = gen_dag(rng, len(names), p_hard=p_hard, p_soft=p_soft)
    ren = {f't{i}': name for i, name in enumerate(names)}
    out = {'tasks': [ren[n] for n in sub['tasks']],
           'hard': {ren[n]: [ren[d] for d in deps]
                    for n, deps in sub['hard'].items()},
           'soft': {ren[n]: [ren[d] for d in deps]
                    for n, deps in sub['soft'].items()}}
    if sub.get('falsy'):
        out['falsy'] = [ren[n] for n in sub['falsy']]
    return out


def gen_wide(rng, workers, per_worker=101):
    '''Many tasks that are ready at the same time (more than `per_worker`
    per worker), a few of them with a common dependent.'''
    ntasks = per_worker * workers + rng.randint(2, 9)
    names = [f't{i}' for i in range(ntasks)]
    last = names[-1]
    hard = {last: rng.sample(names[:-1], 3)}
    return {'tasks': names, 'hard': hard, 'soft': {}, 'workers': workers}


def gen_outcomes(rng, case, kinds, nfail=None):
    names = case['tasks']
    if nfail is None:
        nfail = rng.choice([0, 0, 1, 1, 2, 3, 4])
    bad = set(rng.sample(names, min(nfail, len(names))))
    out = {}
    for name in names:
        if name in bad:
            out[name] = rng.choice(kinds)
        else:
            out[name] = rng.choice(['ok'] * 18 + ['ok_none', 'ok_none'])
    return out
