'''Runtime contracts (icontract) applied from the harness to the real classes
of valjean.  Each condition counts its evaluations; a violated condition is
reported through `BROKEN` (and raises InvariantBroken so that the operation
that produced the malformed object is identified).'''
import icontract
import numpy as np

EVALS = {}
BROKEN = []
_INSTALLED = set()


class InvariantBroken(AssertionError):
    '''A class invariant was violated.'''


def _cnt(name):
    EVALS[name] = EVALS.get(name, 0) + 1


def dataset_well_formed(self):
    '''value and error have the same shape; bins: none, or one entry per
    dimension with N or N+1 (or 0) items.'''
    _cnt('Dataset.well_formed')
    try:
        val, err, bins = self.value, self.error, self.bins
    except AttributeError:
        return True   # mid-construction
    if np.shape(val) != np.shape(err):
        return False
    if bins:
        if len(bins) != np.ndim(val):
            return False
        for arr, dim in zip(bins.values(), np.shape(val)):
            if len(arr) and len(arr) not in (dim, dim + 1):
                return False
    return True


def rlist_index_consistent(self):
    '''The reverse index of an RList mirrors the sequence.'''
    _cnt('RList.index')
    try:
        seq, index = self._seq, self._index
    except AttributeError:
        EVALS['RList.index.not_evaluated'] = 1
        return True
    expect = {}
    for pos, item in enumerate(seq):
        expect.setdefault(self._key(item), []).append(pos)
    try:
        got = {key: sorted(val) for key, val in index.items() if val}
    except TypeError:
        return True
    return got == {key: sorted(val) for key, val in expect.items()}


def tabletemplate_aligned(self):
    '''Columns and highlight columns of a TableTemplate have one length.'''
    _cnt('TableTemplate.aligned')
    try:
        cols, highs = self.columns, self.highlights
    except AttributeError:
        return True
    lens = {np.size(col) for col in cols}
    if len(lens) > 1:
        return False
    hlens = {np.size(high) for high in highs}
    return not hlens or hlens == lens


def install(which):
    '''Install the named invariants on the real classes (idempotent).'''
    for name in which:
        if name in _INSTALLED:
            continue
        _INSTALLED.add(name)
        if name == 'Dataset':
            from valjean.eponine.dataset import Dataset
            icontract.invariant(dataset_well_formed,
                                error=InvariantBroken)(Dataset)
        elif name == 'RList':
            from valjean.cosette.rlist import RList
            icontract.invariant(rlist_index_consistent,
                                error=InvariantBroken)(RList)
        elif name == 'TableTemplate':
            from valjean.javert.templates import TableTemplate
            icontract.invariant(tabletemplate_aligned,
                                error=InvariantBroken)(TableTemplate)
