'''Command line of ./check.'''
import argparse
import os
import sys

from vf import core


def main():
    par = argparse.ArgumentParser()
    par.add_argument('prop')
    par.add_argument('--tier', default=os.environ.get('VERIF_TIER', 'quick'),
                     choices=['quick', 'thorough'])
    par.add_argument('--seed', type=int,
                     default=int(os.environ.get('VERIF_SEED', '0') or 0))
    par.add_argument('--replay')
    args = par.parse_args()
    sys.exit(core.main_check(args.prop.upper(), args.tier, args.seed,
                             args.replay))


if __name__ == '__main__':
    main()
