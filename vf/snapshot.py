'''Deep canonical digests of arbitrary objects (results, tests, datasets,
browsers, environments): used to decide "unchanged" bit for bit.

The digest covers: class names, the ``__dict__`` of instances, mappings (keys,
their order and number -- a defaultdict that gains a key changes the digest),
sequences, sets (order-insensitive), numpy arrays (dtype, shape, raw bytes,
mask), enums, floats by their bit pattern (so that NaN == NaN and -0.0 != 0.0).
Shared and cyclic references are handled with a memo of object ids.
'''
import enum
import hashlib
import struct
from collections import OrderedDict

import numpy as np

_SKIP_TYPES = ()


def digest(obj):
    '''Return a hex digest of `obj`.'''
    hsh = hashlib.sha1()
    _walk(obj, hsh, {}, 0)
    return hsh.hexdigest()


def _put(hsh, *parts):
    for part in parts:
        if isinstance(part, str):
            part = part.encode('utf-8', 'backslashreplace')
        hsh.update(part)
        hsh.update(b'\x00')


def _walk(obj, hsh, memo, depth):
    # pylint: disable=too-many-branches,too-many-return-statements
    if depth > 60:
        _put(hsh, 'DEPTH')
        return
    if obj is None or isinstance(obj, (bool, int, str, bytes)):
        _put(hsh, type(obj).__name__, repr(obj))
        return
    if isinstance(obj, float):
        _put(hsh, 'float', struct.pack('<d', obj))
        return
    if isinstance(obj, complex):
        _put(hsh, 'complex', repr(obj))
        return
    if isinstance(obj, enum.Enum):
        _put(hsh, 'enum', type(obj).__name__, obj.name)
        return
    if isinstance(obj, np.generic):
        _put(hsh, 'npgen', obj.dtype.str, obj.tobytes())
        return
    oid = id(obj)
    if oid in memo:
        _put(hsh, 'REF', str(memo[oid]))
        return
    memo[oid] = len(memo)
    if isinstance(obj, np.ma.MaskedArray):
        _put(hsh, 'ma', obj.dtype.str, repr(obj.shape))
        _walk(np.asarray(obj.data), hsh, memo, depth + 1)
        _walk(np.ma.getmaskarray(obj), hsh, memo, depth + 1)
        return
    if isinstance(obj, np.ndarray):
        _put(hsh, 'nd', obj.dtype.str, repr(obj.shape))
        if obj.dtype.hasobject:
            for item in obj.ravel().tolist():
                _walk(item, hsh, memo, depth + 1)
        else:
            _put(hsh, np.ascontiguousarray(obj).tobytes())
        return
    if isinstance(obj, (dict, OrderedDict)) or (
            hasattr(obj, 'items') and hasattr(obj, 'keys')
            and hasattr(obj, '__getitem__') and not isinstance(obj, type)
            and not hasattr(obj, '__dict__')):
        _put(hsh, 'map', type(obj).__name__, str(len(obj)))
        for key, val in list(obj.items()):
            _walk(key, hsh, memo, depth + 1)
            _walk(val, hsh, memo, depth + 1)
        return
    if isinstance(obj, (list, tuple)):
        _put(hsh, type(obj).__name__, str(len(obj)))
        for item in obj:
            _walk(item, hsh, memo, depth + 1)
        return
    if isinstance(obj, (set, frozenset)):
        _put(hsh, type(obj).__name__, str(len(obj)))
        subs = sorted(digest(item) for item in obj)
        for sub in subs:
            _put(hsh, sub)
        return
    if isinstance(obj, type) or callable(obj) and not hasattr(obj, '__dict__'):
        _put(hsh, 'callable', getattr(obj, '__qualname__', repr(type(obj))))
        return
    if callable(obj) and hasattr(obj, '__code__'):
        _put(hsh, 'function', getattr(obj, '__qualname__', '?'))
        return
    state = None
    if hasattr(obj, '__dict__'):
        state = vars(obj)
    elif hasattr(obj, '__slots__'):
        state = {name: getattr(obj, name) for name in obj.__slots__
                 if hasattr(obj, name)}
    if state is not None:
        _put(hsh, 'obj', type(obj).__module__, type(obj).__qualname__,
             str(len(state)))
        if hasattr(obj, 'items') and hasattr(obj, 'keys'):
            # mapping-like objects with a __dict__ (Env, Browser Index, ...)
            try:
                items = list(obj.items())
            except Exception:  # pylint: disable=broad-except
                items = None
            if items is not None:
                _put(hsh, 'mapitems', str(len(items)))
                for key, val in items:
                    _walk(key, hsh, memo, depth + 1)
                    _walk(val, hsh, memo, depth + 1)
        for key, val in state.items():
            if key == 'lock':
                continue
            _put(hsh, 'attr', key)
            _walk(val, hsh, memo, depth + 1)
        return
    _put(hsh, 'repr', type(obj).__name__, repr(obj))
