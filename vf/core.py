'''Core of the runtime-monitoring framework: seeds, sharding, recording of what
the monitors observed, verdicts, evidence files, replay files and matching of
violations against the committed known-findings file.

A property module (``vf.props.cNN``) provides

* ``LEVEL``      evidence level ('exploration' or 'fault_enumeration'),
* ``RULE``       how cases are generated and what "distinct, non-trivial" means,
* ``DECIDING``   names of counters that must be > 0 for a "held" verdict,
* ``ASSUMPTIONS``list of strings,
* ``plan(tier, seed)``  -> list of JSON-able shard specifications,
* ``run(spec, rec)``    -> executes the shard, reporting through ``rec``,
* ``replay(case, rec)`` -> re-executes exactly one recorded case.
'''
import hashlib
import json
import os
import random
import subprocess
import sys
import tempfile
import time
import traceback

VERIF = os.path.dirname(os.path.dirname(os.path.abspath(__file__)))
REPO = os.environ.get('VERIF_REPO', '/repo')
PY = os.environ.get('VERIF_PY', '/venv/bin/python')
DEPS = os.path.join(VERIF, '.deps')
WHEELS = '/opt/veriftools/wheels'
NCPU = min(16, os.cpu_count() or 1)


def h(obj):
    '''Short stable hash of a JSON-able / repr-able object.'''
    if not isinstance(obj, (bytes, bytearray)):
        obj = repr(obj).encode('utf-8', 'backslashreplace')
    return hashlib.sha1(obj).hexdigest()[:16]


def rng_for(*parts):
    '''Deterministic generator for (seed, property, shard, case, ...).'''
    return random.Random('/'.join(str(p) for p in parts))


def jsonable(obj, depth=0):
    '''Best-effort conversion to something json.dump accepts.'''
    if depth > 12:
        return repr(obj)
    if obj is None or isinstance(obj, (bool, int, str)):
        return obj
    if isinstance(obj, float):
        if obj != obj or obj in (float('inf'), float('-inf')):
            return repr(obj)
        return obj
    if isinstance(obj, (bytes, bytearray)):
        return {'__bytes__': bytes(obj).hex()}
    if isinstance(obj, dict):
        return {str(k): jsonable(v, depth + 1) for k, v in obj.items()}
    if isinstance(obj, (list, tuple, set, frozenset)):
        seq = obj if isinstance(obj, (list, tuple)) else sorted(obj, key=repr)
        return [jsonable(v, depth + 1) for v in seq]
    try:
        import numpy as np
        if isinstance(obj, np.ndarray):
            return {'__nd__': obj.dtype.str, 'shape': list(obj.shape),
                    'hex': obj.tobytes().hex()}
        if isinstance(obj, np.generic):
            return jsonable(obj.item(), depth + 1)
    except ImportError:
        pass
    return repr(obj)


def unjson_array(dct):
    '''Inverse of jsonable for numpy arrays.'''
    import numpy as np
    return np.frombuffer(bytes.fromhex(dct['hex']),
                         dtype=np.dtype(dct['__nd__'])
                         ).reshape(dct['shape']).copy()


class Recorder:
    '''What one shard observed.'''
    MAX_SAMPLES = 4
    MAX_DISTINCT = 200000

    def __init__(self):
        self.counters = {}
        self.distinct = set()
        self.samples = []
        self.violations = {}     # key -> {'key','msg','case','count'}
        self.notes = {}
        self.exhaustive = {}
        self.debug_log = False   # the shard runs with DEBUG-level logging

    def count(self, name, num=1):
        self.counters[name] = self.counters.get(name, 0) + num

    def maxi(self, name, val):
        self.counters[name] = max(self.counters.get(name, val), val)

    def seen(self, obj):
        '''Record one distinct non-trivial case (by the module's RULE).'''
        if len(self.distinct) < self.MAX_DISTINCT:
            self.distinct.add(h(obj))

    def sample(self, obj):
        if len(self.samples) < self.MAX_SAMPLES:
            self.samples.append(jsonable(obj))

    def note(self, name, value):
        self.notes[name] = jsonable(value)

    def violation(self, key, msg, case):
        '''`key` names the mechanism (used to match known findings), `case`
        must be enough for ``replay``.'''
        ent = self.violations.get(key)
        if ent is None:
            case = jsonable(case)
            if self.debug_log and isinstance(case, dict):
                case = dict(case, debug_log=True)   # replayed the same way
            self.violations[key] = {'key': key, 'msg': str(msg)[:2000],
                                    'case': case, 'count': 1}
        else:
            ent['count'] += 1

    def dump(self):
        return {'counters': self.counters, 'distinct': sorted(self.distinct),
                'samples': self.samples, 'notes': self.notes,
                'violations': list(self.violations.values()),
                'exhaustive': self.exhaustive}


def ensure_deps():
    '''Install the pure-python monitor dependencies beside the framework if a
    fresh restore does not carry them.'''
    need = []
    for mod in ('icontract', 'mpmath'):
        if not os.path.isdir(os.path.join(DEPS, mod)):
            need.append(mod)
    if need:
        os.makedirs(DEPS, exist_ok=True)
        subprocess.run([PY, '-m', 'pip', 'install', '-q', '--no-index',
                        '--no-deps', '--find-links', WHEELS, '--target', DEPS]
                       + need, check=False, stdout=subprocess.DEVNULL,
                       stderr=subprocess.DEVNULL,
                       env=dict(os.environ, PIP_NO_INDEX='1'))


def child_env(hashseed):
    env = dict(os.environ)
    env['PYTHONPATH'] = os.pathsep.join([REPO, VERIF, DEPS])
    env['PYTHONDONTWRITEBYTECODE'] = '1'
    env['PYTHONHASHSEED'] = str(hashseed)
    env['MPLBACKEND'] = 'Agg'
    env['OMP_NUM_THREADS'] = '1'
    env['OPENBLAS_NUM_THREADS'] = '1'
    env['MKL_NUM_THREADS'] = '1'
    env['GIT_CONFIG_COUNT'] = '1'
    env['GIT_CONFIG_KEY_0'] = 'init.defaultBranch'
    env['GIT_CONFIG_VALUE_0'] = 'master'
    env.setdefault('VERIF_REPO', REPO)
    return env


def load_known():
    path = os.path.join(VERIF, 'known_findings.json')
    try:
        with open(path) as fil:
            return json.load(fil)['findings']
    except (OSError, ValueError, KeyError):
        return []


def run_shards(prop, specs, timeout, workdir):
    '''Run every shard specification in its own interpreter, at most NCPU at a
    time.  Returns the list of (spec, result-or-None, diagnostic).'''
    pending = list(enumerate(specs))
    running = []
    out = [None] * len(specs)

    def launch(idx, spec):
        sfile = os.path.join(workdir, f'spec{idx}.json')
        rfile = os.path.join(workdir, f'res{idx}.json')
        lfile = os.path.join(workdir, f'log{idx}.txt')
        with open(sfile, 'w') as fil:
            json.dump(spec, fil)
        hashseed = spec.get('hashseed', 0)
        log = open(lfile, 'wb')
        proc = subprocess.Popen(
            [PY, '-X', 'faulthandler', '-m', 'vf.shard', prop, sfile, rfile],
            stdout=log, stderr=subprocess.STDOUT, cwd=workdir,
            env=child_env(hashseed), start_new_session=True)
        return [idx, spec, proc, time.time(), rfile, lfile, log]

    while pending or running:
        while pending and len(running) < NCPU:
            running.append(launch(*pending.pop(0)))
        time.sleep(0.02)
        still = []
        for ent in running:
            idx, spec, proc, t_0, rfile, lfile, log = ent
            code = proc.poll()
            if code is None:
                if time.time() - t_0 > timeout:
                    try:
                        os.killpg(proc.pid, 9)
                    except OSError:
                        proc.kill()
                    proc.wait()
                    log.close()
                    out[idx] = (spec, None, 'watchdog: shard exceeded '
                                f'{timeout}s\n' + tail(lfile))
                else:
                    still.append(ent)
                continue
            log.close()
            try:
                with open(rfile) as fil:
                    out[idx] = (spec, json.load(fil), '')
            except (OSError, ValueError):
                out[idx] = (spec, None, f'shard exit code {code}\n'
                            + tail(lfile))
        running = still
    return out


def tail(path, num=3000):
    try:
        with open(path, 'rb') as fil:
            data = fil.read()
        return data[-num:].decode('utf-8', 'replace')
    except OSError:
        return ''


def merge(results):
    tot = {'counters': {}, 'distinct': set(), 'samples': [], 'notes': {},
           'violations': {}, 'exhaustive': {}, 'broken': []}
    maxkeys = ('max_',)
    for spec, res, diag in results:
        if res is None:
            tot['broken'].append({'spec': spec, 'diag': diag})
            continue
        for key, val in res['counters'].items():
            if key.startswith(maxkeys):
                tot['counters'][key] = max(tot['counters'].get(key, val), val)
            else:
                tot['counters'][key] = tot['counters'].get(key, 0) + val
        tot['distinct'].update(res['distinct'])
        for smp in res['samples']:
            if len(tot['samples']) < 6:
                tot['samples'].append(smp)
        tot['notes'].update(res['notes'])
        for key, val in res.get('exhaustive', {}).items():
            tot['exhaustive'][key] = tot['exhaustive'].get(key, True) and val
        for vio in res['violations']:
            ent = tot['violations'].get(vio['key'])
            if ent is None:
                tot['violations'][vio['key']] = dict(vio)
            else:
                ent['count'] += vio['count']
    return tot


def write_replay(prop, vio, tier, seed):
    rdir = os.environ.get('VERIF_REPLAY_DIR',
                          os.path.join(VERIF, 'replays'))
    os.makedirs(rdir, exist_ok=True)
    path = os.path.join(rdir, f'{prop}-{h(vio["key"])}.json')
    with open(path, 'w') as fil:
        json.dump({'property': prop, 'key': vio['key'], 'msg': vio['msg'],
                   'tier': tier, 'seed': seed, 'case': vio['case'],
                   'count_in_run': vio['count']}, fil, indent=1)
    return path


def main_check(prop, tier, seed, replay=None):
    '''Entry point used by ./check.  Returns the exit code.'''
    import importlib
    t_start = time.time()
    ensure_deps()
    sys.path[:0] = [REPO, VERIF, DEPS]
    mod = importlib.import_module(f'vf.props.{prop.lower()}')
    known = [k for k in load_known() if k['property'] == prop]
    open_keys = {k['key']: k for k in known if k.get('status') == 'open'}

    if replay:
        with open(replay) as fil:
            rep = json.load(fil)
        specs = [{'replay': rep['case'], 'hashseed': rep['case'].get(
            'hashseed', 0) if isinstance(rep['case'], dict) else 0}]
    else:
        specs = mod.plan(tier, seed)
    timeout = getattr(mod, 'SHARD_TIMEOUT', {}).get(tier, 1500)
    workdir = tempfile.mkdtemp(prefix=f'vf-{prop}-')
    try:
        results = run_shards(prop, specs, timeout, workdir)
    finally:
        import shutil
        shutil.rmtree(workdir, ignore_errors=True)
    tot = merge(results)
    wall = time.time() - t_start

    new_vios, known_hits = [], []
    for key, vio in sorted(tot['violations'].items()):
        if key in open_keys:
            known_hits.append((open_keys[key], vio))
        else:
            new_vios.append(vio)

    inconclusive = []
    if not replay:
        for name in mod.DECIDING:
            if tot['counters'].get(name, 0) <= 0:
                inconclusive.append(f'deciding monitor {name!r} observed '
                                    'nothing')
    for brk in tot['broken']:
        inconclusive.append('shard did not report: '
                            + brk['diag'].strip()[-600:])

    if not replay:
        coverage = {
            'evaluations': int(tot['counters'].get('evaluations', 0)),
            'distinct_nontrivial': len(tot['distinct']),
            'rule': mod.RULE,
            'samples': tot['samples'],
            'counters': tot['counters'],
            'shards': len(specs),
            'known_findings_seen': [k['key'] for k, _ in known_hits],
        }
        if tot['notes']:
            coverage['notes'] = tot['notes']
        if tot['exhaustive']:
            coverage['exhaustive_parts'] = tot['exhaustive']
            if all(tot['exhaustive'].values()) and getattr(
                    mod, 'EXHAUSTIVE_WHEN_ALL_PARTS', False):
                coverage['exhaustive'] = True
        if inconclusive:
            coverage['inconclusive'] = inconclusive
        evid = {'property_id': prop, 'tier': tier, 'seed': seed,
                'level': mod.LEVEL, 'coverage': coverage,
                'assumptions': mod.ASSUMPTIONS, 'wall_s': round(wall, 2),
                'violations': len(new_vios)}
        edir = os.environ.get('VERIF_EVIDENCE_DIR',
                              os.path.join(VERIF, 'evidence'))
        os.makedirs(edir, exist_ok=True)
        with open(os.path.join(edir, f'{prop}.json'), 'w') as fil:
            json.dump(evid, fil, indent=1, sort_keys=True)
            fil.write('\n')

    for vio in new_vios:
        path = write_replay(prop, vio, tier, seed)
        print(f'VIOLATION property={prop} replay={path}')
        print(f'  mechanism={vio["key"]} count={vio["count"]}: '
              f'{vio["msg"][:600]}')
    for ent, vio in known_hits:
        print(f'KNOWN-FINDING: property={prop} {ent["key"]}: {ent["what"]} '
              f'(seen {vio["count"]}x)')
    summary = {k: v for k, v in sorted(tot['counters'].items())}
    print(f'{prop} {tier} seed={seed}: evaluations='
          f'{summary.get("evaluations", 0)} distinct={len(tot["distinct"])} '
          f'wall={wall:.1f}s')
    print('  counters: ' + json.dumps(summary))
    if new_vios:
        return 1
    if inconclusive:
        for line in inconclusive:
            print(f'INCONCLUSIVE property={prop} {line}')
        return 2
    return 0


class debug_logging:
    '''The valjean loggers at DEBUG level (as with `valjean -v`), their
    records going nowhere: what the program does must not depend on how much
    it logs.'''
    # pylint: disable=invalid-name

    def __init__(self, active):
        self.active = active
        self.saved = None

    def __enter__(self):
        if self.active:
            import logging
            try:
                # (the package configures its loggers when it is imported)
                import valjean  # noqa: F401  pylint: disable=unused-import
            except ImportError:
                pass
            logger = logging.getLogger('valjean')
            self.saved = (logger.level, logger.handlers[:], logger.propagate,
                          logging.root.manager.disable)
            # (the shards silence logging globally)
            logging.disable(logging.NOTSET)
            logger.handlers[:] = [logging.NullHandler()]
            logger.propagate = False
            logger.setLevel(logging.DEBUG)

    def __exit__(self, *exc):
        if self.active:
            import logging
            logger = logging.getLogger('valjean')
            logger.setLevel(self.saved[0])
            logger.handlers[:] = self.saved[1]
            logger.propagate = self.saved[2]
            logging.disable(self.saved[3])
        return False


# checks whose every third shard runs with DEBUG logging (the scheduler
# checks choose per run, C11 is too slow for it)
DEBUG_LOG_PROPS = ('C05', 'C06', 'C07', 'C08', 'C09', 'C10', 'C12', 'C13',
                   'C14', 'C15', 'C16', 'C17', 'C18', 'C19', 'C20')


def shard_main(argv):
    '''``python -m vf.shard PROP SPEC RESULT``.'''
    import importlib
    prop, sfile, rfile = argv
    with open(sfile) as fil:
        spec = json.load(fil)
    mod = importlib.import_module(f'vf.props.{prop.lower()}')
    rec = Recorder()
    debug = prop in DEBUG_LOG_PROPS and 'replay' not in spec and \
        isinstance(spec.get('shard'), int) and spec['shard'] % 3 == 1
    if spec.get('replay', {}).get('debug_log') if isinstance(
            spec.get('replay'), dict) else False:
        debug = True
    try:
        with debug_logging(debug):
            rec.debug_log = debug
            if debug:
                rec.count('shards_run_with_debug_logging')
            if 'replay' in spec:
                mod.replay(spec['replay'], rec)
            else:
                mod.run(spec, rec)
    except BaseException:  # pylint: disable=broad-except
        traceback.print_exc()
        with open(rfile + '.partial', 'w') as fil:
            json.dump(rec.dump(), fil)
        raise
    with open(rfile, 'w') as fil:
        json.dump(rec.dump(), fil)


def fast_tmp():
    '''Directory for scratch files that are rewritten very often (RAM-backed
    when the sandbox has one).'''
    for cand in ('/dev/shm',):
        if os.path.isdir(cand) and os.access(cand, os.W_OK):
            return cand
    return None


def limit_memory(gigabytes):
    '''Address-space limit of the calling shard: a corrupted pickle asking
    for an absurd allocation gets MemoryError instead of the OOM killer.'''
    try:
        import resource
        lim = int(gigabytes * 2 ** 30)
        resource.setrlimit(resource.RLIMIT_AS, (lim, lim))
    except (ImportError, ValueError, OSError):
        pass


def split(total, parts):
    '''Split `total` cases into `parts` (start, stop) ranges.'''
    parts = max(1, min(parts, total))
    base, extra = divmod(total, parts)
    out, start = [], 0
    for i in range(parts):
        size = base + (1 if i < extra else 0)
        out.append((start, start + size))
        start += size
    return out


def std_plan(prop, tier, seed, quick, thorough, shards=NCPU, **extra):
    '''Usual plan: `quick`/`thorough` random cases split over the cores.'''
    total = quick if tier == 'quick' else thorough
    specs = []
    for i, (lo, hi) in enumerate(split(total, shards)):
        spec = {'prop': prop, 'tier': tier, 'seed': seed, 'shard': i,
                'lo': lo, 'hi': hi,
                'hashseed': (seed * 7919 + i * 104729 + 1) % 4294967295}
        spec.update(extra)
        specs.append(spec)
    return specs


def repo_tests_under_contracts(contract_names, test_paths, rec, case,
                               timeout=1500):
    '''Run a part of the repository's own test suite with the runtime
    contracts switched on (thorough tiers).  A test that fails *because a
    contract fired* is a violation; other failures are not this monitor's
    business (they are compared with nothing here).'''
    env = child_env(0)
    env['VF_CONTRACTS'] = ','.join(contract_names)
    cmd = [PY, '-m', 'pytest', '-q', '-p', 'no:cacheprovider', '-p',
           'vf.pytest_contracts', '-x', '--timeout=900', '-rf'] + \
        [os.path.join(REPO, p) for p in test_paths]
    try:
        out = subprocess.run(cmd, cwd=REPO, env=env, capture_output=True,
                             text=True, timeout=timeout, check=False)
    except subprocess.TimeoutExpired:
        rec.count('repo_tests_inconclusive')
        return
    text = out.stdout + out.stderr
    rec.count('repo_test_runs_under_contracts')
    evals = [ln for ln in text.splitlines()
             if ln.startswith('VF_CONTRACT_EVALS')]
    rec.note('repo_tests_contract_evaluations', evals[-1] if evals else '')
    summary = [ln for ln in text.splitlines() if ' passed' in ln
               or ' failed' in ln]
    rec.note('repo_tests_summary', summary[-1] if summary else text[-300:])
    if 'InvariantBroken' in text:
        where = [ln for ln in text.splitlines()
                 if 'InvariantBroken' in ln or ln.startswith('FAILED')][:6]
        rec.violation('invariant-broken-in-the-repository-tests-'
                      + '+'.join(contract_names), ' / '.join(where)[:900],
                      case)


_PREVIOUS = {}


def recheck_previous(prop, rec, case, res, tag):
    '''The result of the previous case of this process must still be what it
    was when it was obtained, now that other data went through the same code
    (state shared between objects, re-used buffers).  Then remember `res`.'''
    from vf import snapshot
    old = _PREVIOUS.get(prop)
    if old is not None:
        rec.count('earlier_results_rechecked')
        if snapshot.digest(old[0]) != old[1]:
            rec.violation('earlier-result-changed-by-a-later-evaluation',
                          f'the result of case {old[3]} ({old[2]}) changed '
                          f'after {tag} was evaluated',
                          dict(case, previous=old[3]))
    _PREVIOUS[prop] = (res, snapshot.digest(res), tag, case.get('idx'))
