'''C10 -- numbers read from Tripoli-4 and Apollo3 outputs are the numbers written
there.

Monitors:

S  synthetic Tripoli-4 listings written from a known ground truth (layouts of
   the shipped examples: spectra in E, E x t, E x mu, energy-integrated and
   not-converged results, 1-4 editions, 1-4 responses, 1-3 scoring zones,
   groups printed increasing or decreasing, values of both signs and zero):
   every edition is parsed by batch number and by index and compared, cell by
   cell, with what was written;
R  the numbers of the shipped listings are rewritten by an independent line
   tokenizer that only tracks the current response / scoring zone / step
   headers; every rewritten score and sigma is unique, so each parsed cell
   identifies the row it came from: every written (score, sigma%) pair of a
   delivered edition must be found exactly once, as (value, value*sigma/100),
   in a dataset of the response and zone it was printed under, between the
   bin edges printed on its row (and under its time / angle step header), and
   no cell of those datasets may hold a number that was not written;
A  Apollo3 HDF5 files generated with h5py from a known ground truth, read
   with the Reader and every applicable Picker call, and the Reader-vs-Picker
   differential on the shipped files (vf.props.c10_ap3).'''
import glob
import math
import os
import shutil
import tempfile

import numpy as np

from vf import core
from vf.oracles import t4synth

PROP = 'C10'
LEVEL = 'exploration'
RULE = ('S: synthetic listings (1-4 editions x 1-4 responses x 1-3 zones x '
        '1-3 time or mu steps x 1-6 energy groups, printed increasing or '
        'decreasing, integrated / not-converged results); R: every shipped '
        'listing that holds spectrum rows, with all scores and sigmas '
        'replaced by unique numbers (a fresh set per seed); A: generated '
        'Apollo3 HDF5 files (standard and user-value models) and the six '
        'shipped files; distinct = distinct (layout class) for S, distinct '
        '(listing, response, zone, step kinds) for R, distinct file shapes '
        'for A')
DECIDING = ['synthetic_listings', 'synthetic_cells_compared',
            'rewritten_listings', 'rewritten_rows_found',
            'rewritten_datasets_closed', 'ap3_files_generated',
            'ap3_shipped_items']
ASSUMPTIONS = ['layouts are those present in the shipped examples; response '
               'kinds that appear in no example are not generated',
               'a printed number is the float of its token; error = value x '
               'sigma% / 100 compared at relative 1e-12',
               'h5py is trusted as writer / reader of HDF5 files']
SHARD_TIMEOUT = {'quick': 900, 'thorough': 3000}
DATA = 'tests/eponine/tripoli4/data'


def plan(tier, seed):
    total = 480 if tier == 'quick' else 12000
    specs = core.std_plan(PROP, tier, seed, quick=total, thorough=total,
                          mode='synthetic')
    shard = 1000
    for path in sorted(glob.glob(os.path.join(core.REPO, DATA, '*.res*'))):
        nrep = 1 if tier == 'quick' else 4
        for rep in range(nrep):
            specs.append({'prop': PROP, 'tier': tier, 'seed': seed,
                          'shard': shard, 'mode': 'rewrite', 'rep': rep,
                          'listing': os.path.basename(path), 'hashseed': 2})
            shard += 1
    nap3 = 4 if tier == 'quick' else 8
    per = 60 if tier == 'quick' else 1500
    for i in range(nap3):
        specs.append({'prop': PROP, 'tier': tier, 'seed': seed,
                      'shard': 2000 + i, 'mode': 'ap3', 'lo': i * per,
                      'hi': (i + 1) * per, 'hashseed': 3})
    specs.append({'prop': PROP, 'tier': tier, 'seed': seed, 'shard': 2999,
                  'mode': 'ap3-shipped', 'hashseed': 3})
    # the big rewritten listings first
    specs.sort(key=lambda s: 0 if s['mode'] == 'rewrite' else 1)
    return specs


def close(got, want, rel=1e-12):
    if want == 0:
        return got == 0
    return abs(got - want) <= rel * abs(want)


# --------------------------------------------------------------------------
# S: synthetic listings

def synthetic_case(seed, idx, rec):
    # pylint: disable=too-many-locals,too-many-branches,too-many-statements
    from valjean.eponine.tripoli4.parse import Parser
    rng = core.rng_for(seed, PROP, 'synthetic', idx)
    case = {'mode': 'synthetic', 'seed': seed, 'idx': idx}
    truth = t4synth.gen_truth(rng)
    text = t4synth.write_listing(truth)
    work = tempfile.mkdtemp(prefix='vf-c10-', dir=core.fast_tmp())
    rec.count('evaluations')
    try:
        path = os.path.join(work, 'synthetic.res')
        with open(path, 'w') as fil:
            fil.write(text)
        try:
            par = Parser(path)
        except Exception as err:  # pylint: disable=broad-except
            rec.violation(f'synthetic-listing-not-scanned-'
                          f'{type(err).__name__}', repr(err), case)
            return
        rec.count('synthetic_listings')
        want_batches = [e['batch'] for e in truth['editions']]
        if par.batch_numbers() != want_batches:
            rec.violation('editions-keyed-by-wrong-batch-numbers',
                          f'{par.batch_numbers()} for editions printed '
                          f'after batches {want_batches}', case)
            return
        for eidx, edi in enumerate(truth['editions']):
            try:
                if rng.random() < 0.5:
                    pres = par.parse_from_number(edi['batch'])
                else:
                    pres = par.parse_from_index(eidx - len(want_batches))
                items = pres.to_browser().content
            except Exception as err:  # pylint: disable=broad-except
                rec.violation(f'synthetic-edition-not-parsed-'
                              f'{type(err).__name__}',
                              f'edition {edi["batch"]}: {err!r}', case)
                continue
            rec.count('synthetic_editions')
            found = set()
            for item in items:
                key = (item.get('response_name'), item.get('scoring_zone_id'))
                resp = next((r for r in edi['responses']
                             if r['name'] == key[0]), None)
                zone = None if resp is None else next(
                    (z for z in resp['zone_data'] if z['id'] == key[1]), None)
                if zone is None:
                    rec.violation('item-without-printed-counterpart',
                                  f'edition {edi["batch"]}: parsed item '
                                  f'{key} was not printed', case)
                    continue
                if key in found:
                    rec.violation('item-duplicated', f'{key}', case)
                found.add(key)
                if item.get('response_function') != resp['function'] or \
                        item.get('score_name') != resp['score_name']:
                    rec.violation('metadata-differ-from-header',
                                  f'{key}: function '
                                  f'{item.get("response_function")!r} / '
                                  f'score name {item.get("score_name")!r}, '
                                  f'printed {resp["function"]!r} / '
                                  f'{resp["score_name"]!r}', case)
                check_zone(item, zone, edi['batch'], rec, case)
            missing = {(r['name'], z['id']) for r in edi['responses']
                       for z in r['zone_data']} - found
            if missing:
                rec.violation('printed-result-not-returned',
                              f'edition {edi["batch"]}: {sorted(missing)}',
                              case)
        lay = truth['editions'][0]['responses']
        if truth.get('para'):
            rec.count('synthetic_parallel_listings')
        rec.seen((len(truth['editions']), len(lay), truth.get('para'),
                  tuple(sorted({(str(r['step_kind']), r['decreasing'],
                                 r['integrated'], len(r['edges']),
                                 str(r['mesh']))
                                for r in lay}))))
        if idx % 200 == 0:
            rec.sample({'mode': 'synthetic', 'editions': want_batches,
                        'responses': [{k: r[k] for k in (
                            'function', 'name', 'edges', 'decreasing',
                            'step_kind', 'zones', 'integrated')}
                                      for r in lay]})
    finally:
        shutil.rmtree(work, ignore_errors=True)


def check_mesh(item, zone, batch, rec, case):
    '''Results on a mesh: every cell of every energy range, and the entropies
    printed after each range, under the group they were printed for.'''
    # pylint: disable=too-many-locals
    res = item['results']
    where = f'edition {batch} response {item.get("response_name")} mesh'
    dset = res.get('score')
    if dset is None:
        rec.violation('score-dataset-missing', where, case)
        return
    ngr, ncells = len(zone['edges']) - 1, len(zone['cells'][0])
    names = list(dset.bins)
    if list(np.asarray(dset.bins['e'])) != list(zone['edges']):
        rec.violation('energy-bins-differ', f'{where}: parsed '
                      f'{list(dset.bins["e"])}, printed boundaries '
                      f'{zone["edges"]} (decreasing print order: '
                      f'{zone["decreasing"]})', case)
        return
    val, err = np.asarray(dset.value), np.asarray(dset.error)
    shape = [1] * val.ndim
    shape[names.index('u')], shape[names.index('e')] = ncells, ngr
    if list(val.shape) != shape:
        rec.violation('dataset-shape-differs', f'{where}: {val.shape}, '
                      f'expected {shape}', case)
        return
    for gnum in range(ngr):
        for cnum, (score, sigma) in enumerate(zone['cells'][gnum]):
            index = [0] * val.ndim
            index[names.index('u')], index[names.index('e')] = cnum, gnum
            got_v, got_e = float(val[tuple(index)]), float(err[tuple(index)])
            rec.count('synthetic_cells_compared')
            rec.count('mesh_cells_compared')
            if got_v != score:
                rec.violation('value-differs-from-printed-score',
                              f'{where} cell ({cnum},0,0) range '
                              f'{zone["edges"][gnum:gnum + 2]}: value '
                              f'{got_v!r}, printed {score!r} (ranges '
                              f'printed decreasing: {zone["decreasing"]})',
                              case)
                return
            if not close(got_e, score * sigma / 100.0):
                rec.violation('error-is-not-value-times-sigma-percent',
                              f'{where} cell ({cnum},0,0) range {gnum}: '
                              f'error {got_e!r}, printed {score!r} x '
                              f'{sigma!r} %', case)
                return
    for col, key in enumerate(('boltzmann_entropy', 'shannon_entropy')):
        ent = res.get(key)
        if zone['entropies'] is None:
            if ent is not None:
                rec.violation('entropy-not-printed-but-returned',
                              f'{where}: {key}', case)
            continue
        if ent is None:
            rec.violation('printed-entropy-not-returned', f'{where}: {key}',
                          case)
            continue
        if list(np.asarray(ent.bins['e'])) != list(zone['edges']):
            rec.violation('energy-bins-differ', f'{where}: {key} bins '
                          f'{list(ent.bins["e"])}, printed {zone["edges"]}',
                          case)
            continue
        got = np.asarray(ent.value).reshape(-1).tolist()
        want = [zone['entropies'][g][col] for g in range(ngr)]
        rec.count('entropies_compared', ngr)
        if got != want:
            rec.violation('entropy-attached-to-the-wrong-energy-range',
                          f'{where}: {key} per increasing range {got}, '
                          f'printed {want} (ranges printed decreasing: '
                          f'{zone["decreasing"]})', case)


def check_zone(item, zone, batch, rec, case):
    '''Compare the datasets of one parsed item with what was printed.'''
    # pylint: disable=too-many-locals,too-many-branches
    if zone.get('mesh'):
        check_mesh(item, zone, batch, rec, case)
        return
    res = item['results']
    where = f'edition {batch} response {item.get("response_name")} zone ' \
            f'{zone["id"]}'
    dset = res.get('score')
    if dset is None:
        rec.violation('score-dataset-missing', where, case)
        return
    steps = zone['steps']
    ngr = len(zone['edges']) - 1
    axis = {'t': 't', 'mu': 'mu'}.get(zone['step_kind'])
    for key, want in (('discarded_batches', zone.get('discarded', 0)),
                      ('used_batches', batch - zone.get('discarded', 0))):
        got = res.get(key)
        if got is not None and hasattr(got, 'value'):
            got = got.value
        if got is not None and int(np.asarray(got).reshape(-1)[0]) != want:
            rec.violation('batch-counts-differ-from-printed',
                          f'{where}: {key} = {got!r}, printed {want}', case)
            return
    val = np.asarray(dset.value)
    err = np.asarray(dset.error)
    names = list(dset.bins)
    if list(np.asarray(dset.bins['e'])) != list(zone['edges']):
        rec.violation('energy-bins-differ', f'{where}: parsed '
                      f'{list(dset.bins["e"])}, printed boundaries '
                      f'{zone["edges"]} (decreasing print order: '
                      f'{zone["decreasing"]})', case)
        return
    if axis:
        bounds = [steps[0]['lo']] + [s['hi'] for s in steps]
        if list(np.asarray(dset.bins[axis])) != bounds:
            rec.violation('step-bins-differ', f'{where}: {axis} bins '
                          f'{list(dset.bins[axis])}, printed {bounds} '
                          f'(steps printed decreasing: '
                          f'{zone.get("steps_decreasing")})', case)
            return
    for snum, step in enumerate(steps):
        for gnum in range(ngr):
            index = [0] * val.ndim
            index[names.index('e')] = gnum
            if axis:
                index[names.index(axis)] = snum
            got_v, got_e = float(val[tuple(index)]), float(err[tuple(index)])
            want_v = step['scores'][gnum]
            want_e = want_v * step['sigmas'][gnum] / 100.0
            rec.count('synthetic_cells_compared')
            if got_v != want_v:
                rec.violation('value-differs-from-printed-score',
                              f'{where} step {snum} group '
                              f'{zone["edges"][gnum:gnum + 2]}: value '
                              f'{got_v!r}, printed {want_v!r} (groups '
                              f'printed decreasing: {zone["decreasing"]})',
                              case)
                return
            if not close(got_e, want_e):
                rec.violation('error-is-not-value-times-sigma-percent',
                              f'{where} step {snum} group {gnum}: error '
                              f'{got_e!r}, printed score {want_v!r} x sigma% '
                              f'{step["sigmas"][gnum]!r} / 100 = {want_e!r}',
                              case)
                return
    expected_shape = [1] * val.ndim
    expected_shape[names.index('e')] = ngr
    if axis:
        expected_shape[names.index(axis)] = len(steps)
    if list(val.shape) != expected_shape:
        rec.violation('dataset-shape-differs', f'{where}: {val.shape}, '
                      f'expected {expected_shape}', case)
    # integrated results
    integ = [s['integrated'] for s in steps]
    dint = res.get('score_integrated', res.get('score_eintegrated'))
    if all(isinstance(i, tuple) for i in integ):
        if dint is None:
            rec.violation('integrated-result-missing', where, case)
            return
        ival = np.asarray(dint.value).reshape(-1)
        ierr = np.asarray(dint.error).reshape(-1)
        if len(ival) != len(steps):
            rec.violation('integrated-result-shape', f'{where}: '
                          f'{np.shape(dint.value)}', case)
            return
        for snum, (score, sigma) in enumerate(integ):
            rec.count('synthetic_cells_compared')
            if float(ival[snum]) != score or not close(
                    float(ierr[snum]), score * sigma / 100.0):
                rec.violation('integrated-result-differs',
                              f'{where} step {snum}: ({ival[snum]!r}, '
                              f'{ierr[snum]!r}), printed score {score!r} '
                              f'sigma% {sigma!r}', case)
                return
    elif dint is not None and any(isinstance(i, tuple) for i in integ) \
            and all(i is not None for i in integ):
        # some steps converged, the others not yet: the printed numbers
        # under their step, no number for the others
        ival = np.asarray(dint.value, dtype=float).reshape(-1)
        ierr = np.asarray(dint.error, dtype=float).reshape(-1)
        if len(ival) != len(steps):
            rec.violation('integrated-result-shape', f'{where}: '
                          f'{np.shape(dint.value)}', case)
            return
        for snum, one in enumerate(integ):
            rec.count('synthetic_cells_compared')
            if one == 'not_converged':
                if not np.isnan(ival[snum]):
                    rec.violation('integrated-result-invented',
                                  f'{where} step {snum}: NOT YET CONVERGED '
                                  f'was printed, parsed {ival[snum]!r}', case)
                    return
            elif float(ival[snum]) != one[0] or not close(
                    float(ierr[snum]), one[0] * one[1] / 100.0):
                rec.violation('integrated-result-differs',
                              f'{where} step {snum}: ({ival[snum]!r}, '
                              f'{ierr[snum]!r}), printed score {one[0]!r} '
                              f'sigma% {one[1]!r} (other steps not '
                              'converged)', case)
                return
        rec.count('mixed_convergence_zones')
    elif dint is not None and all(i is None for i in integ):
        rec.violation('integrated-result-invented', where, case)
    elif dint is not None and all(i == 'not_converged' for i in integ):
        # nothing was printed: no number may be reported
        ival = np.asarray(dint.value, dtype=float).reshape(-1)
        if not np.all(np.isnan(ival)):
            rec.violation('integrated-result-invented',
                          f'{where}: NOT YET CONVERGED was printed, parsed '
                          f'{ival.tolist()}', case)


# --------------------------------------------------------------------------
# R: shipped listings with rewritten numbers

def cells_of(dset):
    '''(index tuple, value, error) of every cell of a dataset.'''
    val = np.asarray(dset.value, dtype=float)
    err = np.asarray(dset.error, dtype=float)
    if val.ndim == 0:
        yield (), float(val), float(err)
        return
    for index in np.ndindex(*val.shape):
        yield index, float(val[index]), float(err[index])


def check_keff(item, row, err, where, rec, case):
    '''A rewritten keff row: estimator label, error, correlation.'''
    rec.count('rewritten_keff_rows_found')
    if row['estimator'] and item.get('keff_estimator') != row['estimator']:
        rec.violation('keff-attached-to-another-estimator',
                      f'{where}: found under '
                      f'{item.get("keff_estimator")!r}', case)
    if row['sigma'] is None:
        if not math.isnan(err):
            rec.violation('error-invented-for-not-converged-keff',
                          f'{where}: error {err!r}', case)
    else:
        want = row['score'] * row['sigma'] / 100.0
        good = close(err, want) or (row['abs_sigma'] is not None and
                                    close(err, row['abs_sigma'], 1e-5))
        if not good:
            rec.violation('error-is-not-value-times-sigma-percent',
                          f'{where}: error {err!r}, expected {want!r}', case)
    if row['correlation'] is not None:
        corr = item['results'].get('correlation_keff')
        got = None if corr is None else float(np.asarray(corr.value))
        if got != row['correlation']:
            rec.violation('keff-correlation-differs', f'{where}: '
                          f'correlation {got!r}, printed '
                          f'{row["correlation"]!r}', case)


def rewrite_case(seed, listing, rep, rec):
    # pylint: disable=too-many-locals,too-many-branches,too-many-statements
    from valjean.eponine.tripoli4.parse import Parser, ParserException
    case = {'mode': 'rewrite', 'seed': seed, 'listing': listing, 'rep': rep}
    rng = core.rng_for(seed, PROP, 'rewrite', listing, rep)
    with open(os.path.join(core.REPO, DATA, listing), errors='ignore',
              encoding='utf-8') as fil:
        text = fil.read()
    new, rows = t4synth.rewrite(text, rng)
    rec.count('evaluations')
    if not rows:
        rec.count('listings_without_spectrum_rows')
        return
    work = tempfile.mkdtemp(prefix='vf-c10r-', dir=core.fast_tmp())
    try:
        path = os.path.join(work, listing)
        with open(path, 'w', encoding='utf-8') as fil:
            fil.write(new)
        try:
            par = Parser(path)
        except ParserException:
            rec.count('rewritten_listing_refused_by_parser')
            return
        rec.count('rewritten_listings')
        by_score = {}
        for row in rows:
            by_score[row['score']] = row
        matched = set()
        for bnum in par.batch_numbers():
            edition_text = par.scan_res[bnum]
            try:
                items = par.parse_from_number(bnum).to_browser().content
            except ParserException:
                rec.count('rewritten_edition_refused_by_parser')
                continue
            rec.count('rewritten_editions_parsed')
            expected = [r for r in rows if r['line'] in edition_text
                        and 'mesh' not in (r['zone'] or '').lower()]
            rec.count('rows_outside_known_layouts',
                      sum(1 for r in rows if r['line'] in edition_text)
                      - len(expected))
            hits = {}
            touched = []          # datasets in which a written row was found
            for item in items:
                for rname, dset in item['results'].items():
                    if not hasattr(dset, 'value') or rname in (
                            'score/lethargy', 'discarded_batches',
                            'used_batches', 'units'):
                        continue
                    cells = list(cells_of(dset))
                    inside = 0
                    for index, val, err in cells:
                        row = by_score.get(val)
                        if row is None:
                            continue
                        inside += 1
                        hits.setdefault(val, []).append(
                            (item, rname, dset, index, err))
                    if inside and rname != 'keff':
                        touched.append((item, rname, dset, cells))
            for row in expected:
                got = hits.get(row['score'], [])
                where = (f'{listing} edition {bnum}: row {row["line"]!r} '
                         f'of {row["response"]} / {row["zone"]}')
                if len(got) != 1:
                    key = ('printed-score-not-found' if not got
                           else 'printed-score-found-several-times')
                    rec.violation(key, f'{where}: found {len(got)} times',
                                  case)
                    continue
                item, rname, dset, index, err = got[0]
                rec.count('rewritten_rows_found')
                matched.add(row['score'])
                if row['kind'] == 'keff':
                    check_keff(item, row, err, where, rec, case)
                    rec.seen((listing, 'keff', row['estimator']))
                    continue
                want_e = row['score'] * row['sigma'] / 100.0
                if not close(err, want_e):
                    rec.violation('error-is-not-value-times-sigma-percent',
                                  f'{where}: error {err!r}, expected '
                                  f'{want_e!r}', case)
                resp = row['response']
                if item.get('response_function') != resp.get('function') \
                        or (resp.get('name') and item.get('response_name')
                            != resp['name']) \
                        or (resp.get('score_name') and
                            item.get('score_name') != resp['score_name']):
                    rec.violation('cell-attached-to-another-response',
                                  f'{where}: found in '
                                  f'{item.get("response_function")} / '
                                  f'{item.get("response_name")} / '
                                  f'{item.get("score_name")}', case)
                zone = row['zone'] or ''
                if 'num of volume :' in zone:
                    zid = int(zone.rsplit(':', 1)[1])
                    if item.get('scoring_zone_id') != zid:
                        rec.violation('cell-attached-to-another-zone',
                                      f'{where}: found under zone '
                                      f'{item.get("scoring_zone_id")!r}',
                                      case)
                names = list(dset.bins)
                if row['kind'] == 'group' and 'e' in names and index:
                    pos = index[names.index('e')]
                    edges = np.asarray(dset.bins['e'], dtype=float)
                    got_e = (float(edges[pos]), float(edges[pos + 1]))
                    if got_e != row['e']:
                        rec.violation('cell-between-other-bin-edges',
                                      f'{where}: its cell lies between '
                                      f'{got_e}, printed {row["e"]}', case)
                for kind, axis in (('time', 't'), ('mu', 'mu'),
                                   ('phi', 'phi')):
                    if kind in row['steps'] and axis in names and index \
                            and len(dset.bins[axis]) > 1:
                        pos = index[names.index(axis)]
                        edges = np.asarray(dset.bins[axis], dtype=float)
                        got_s = tuple(sorted((float(edges[pos]),
                                              float(edges[pos + 1]))))
                        want_s = tuple(sorted(row['steps'][kind]))
                        if got_s != want_s:
                            rec.violation('cell-under-another-step',
                                          f'{where}: {kind} bin {got_s}, '
                                          f'printed under {want_s}', case)
                rec.seen((listing, resp.get('function'), resp.get('name'),
                          resp.get('score_name'), tuple(row['steps']),
                          row['kind']))
            # closed world: datasets that hold written rows hold nothing else
            for item, rname, dset, cells in touched:
                rec.count('rewritten_datasets_closed')
                alien = [(i, v) for i, v, _ in cells
                         if v not in by_score and not math.isnan(v)]
                if alien:
                    rec.violation('cell-holds-a-number-that-was-not-printed',
                                  f'{listing} edition {bnum} '
                                  f'{item.get("response_function")}/'
                                  f'{item.get("score_name")} {rname}: '
                                  f'{alien[:3]}', case)
        if rep == 0:
            rec.sample({'mode': 'rewrite', 'listing': listing,
                        'rows_rewritten': len(rows),
                        'rows_found': len(matched),
                        'example_row': rows[0]['line']})
    finally:
        shutil.rmtree(work, ignore_errors=True)


def run(spec, rec):
    mode = spec['mode']
    if mode == 'synthetic':
        for idx in range(spec['lo'], spec['hi']):
            synthetic_case(spec['seed'], idx, rec)
    elif mode == 'rewrite':
        rewrite_case(spec['seed'], spec['listing'], spec['rep'], rec)
    else:
        from vf.props import c10_ap3
        if mode == 'ap3':
            try:
                for idx in range(spec['lo'], spec['hi']):
                    rec.count('evaluations')
                    c10_ap3.synthetic_case(spec['seed'], idx, spec['tier'],
                                           rec)
            finally:
                c10_ap3.cleanup()
        else:
            rec.count('evaluations')
            c10_ap3.shipped_differential(rec)
    for name in DECIDING:
        rec.count(name, 0)


def replay(case, rec):
    mode = case['mode']
    if mode == 'synthetic':
        synthetic_case(case['seed'], case['idx'], rec)
    elif mode == 'rewrite':
        rewrite_case(case['seed'], case['listing'], case['rep'], rec)
    else:
        from vf.props import c10_ap3
        if mode == 'ap3':
            try:
                c10_ap3.synthetic_case(case['seed'], case['idx'],
                                       case.get('tier', 'quick'), rec,
                                       previous=True)
            finally:
                c10_ap3.cleanup()
        else:
            c10_ap3.shipped_differential(rec)
