'''C11 -- a truncated Tripoli-4 listing gives a parser error or the last complete
edition.

Monitor: every shipped example listing (and synthetic ones assembled from
them) is cut at byte offsets -- *every* offset in the thorough tier, every
offset of the small listings and of the scanner-interpreted lines plus line
boundaries and a seeded sample in the quick tier -- written to a scratch file
and opened with the real ``Parser``; editions that the scanner delivers are
parsed with ``parse_from_number``.  Observed per prefix: the exception class
(anything but ``ParserException`` is a violation), a logical step budget
(``sys.monitoring`` PY_START count, "never hangs"), and the deep digest of the
responses of every edition parsed, compared with the digest of the same
edition (batch number) of the complete listing computed first.  Parse results
are memoised by edition text; a seeded share is re-parsed later, after failing
parses and in another order, and a few prefixes are repeated in a fresh
process, to expose state carried between parses.'''
import glob
import hashlib
import os
import shutil
import subprocess
import sys
import tempfile
import traceback

from vf import core, snapshot
from vf.steps import StepBudget, Steps  # noqa: F401

PROP = 'C11'
LEVEL = 'fault_enumeration'
RULE = ('prefixes of the 24 example listings shipped with the tests, of two '
        'synthetic listings made of their editions and of two listings '
        'written by the generator of C10 (several editions, time / mu steps, '
        'not-converged results): '
        'thorough = every byte offset of every listing; quick = every byte '
        'offset of the listings <= 12 kB and, for the larger ones, every '
        'offset inside the lines the scanner interprets, every line boundary '
        'and a seeded sample; distinct = distinct (listing, outcome class, '
        'number of editions delivered, kind of line cut)')
DECIDING = ['prefixes', 'offsets_inside_interpreted_lines',
            'editions_compared_with_complete_listing', 'reparses',
            'fresh_process_repeats']
ASSUMPTIONS = ['the responses of an edition are compared (scores, errors, '
               'bins, metadata); batch_data / run_data, which hold times and '
               'counters the scanner derives from the whole file, may '
               'legally differ after a cut and are only counted',
               '"never hangs" is decided as a logical step budget (Python '
               'function calls <= 50 x those of the complete listing + 1e6); '
               'the wall-clock watchdog of the shard is inconclusive',
               'pyparsing and numpy are trusted']
SHARD_TIMEOUT = {'quick': 900, 'thorough': 3400}
EXHAUSTIVE_WHEN_ALL_PARTS = True
DATA = 'tests/eponine/tripoli4/data'
KEYS = ('BATCH', 'number of tasks is', 'PACKET_LENGTH', 'initialization time',
        'Edition after batch number', 'number of batches used',
        'batch number :', 'number of batch', 'simulation time',
        'exploitation time', 'elapsed time', 'RESULTS ARE GIVEN',
        'NORMAL COMPLETION', 'PARTIAL EDITION')
SMALL = 12000


DECOY = bytes.maketrans(b'123456789', b'234567891')


def listings():
    root = os.path.join(core.REPO, DATA)
    out = sorted(glob.glob(os.path.join(root, '*.res*')))
    return [p for p in out if os.path.isfile(p)]


def synthetic(data_by_name):
    '''Synthetic listings built from the shipped ones.'''
    out = {}
    base = data_by_name.get('failure_test_no_normal_completion.d.res')
    if base:
        # the edition block repeated under another batch number
        marker = b'RESULTS ARE GIVEN'
        pos = base.find(marker)
        line_start = base.rfind(b'\n', 0, pos) + 1
        block = base[line_start:]
        out['synthetic_two_editions.res'] = base + b'\n' + block
        # partial edition (job stopped by a signal) after which the job went
        # on: time lines, the next batch, the time once more
        out['synthetic_partial_goes_on.res'] = base + (
            b'\n\n simulation time (s) : 12\n\n batch number : 39\n\n'
            b' simulation time (s) : 13\n\n elapsed time (s) : 14\n')
    small = data_by_name.get('ttsSimplePacket20.d.PARA.res.ceav5')
    if small:
        out['synthetic_para_twice.res'] = small + b'\n' + small[
            small.find(b'RESULTS ARE GIVEN') - 40:]
    return out


def generated():
    '''Listings written by the generator of C10 (several editions, time / mu
    steps, not-converged results), small enough to be cut at every byte in
    both tiers.'''
    from vf.oracles import t4synth
    out = {}
    num, mixed = 0, False
    for seed in range(400):
        rng = core.rng_for('C11', 'generated', seed)
        truth = t4synth.gen_truth(rng)
        text = t4synth.write_listing(truth).encode()
        if text.count(b'RESULTS ARE') < 2:
            continue
        # one listing in which some steps of a spectrum are converged and
        # later ones are not yet (early editions of a killed job)
        is_mixed = any(
            isinstance(zone['steps'][0]['integrated'], tuple) and any(
                step['integrated'] == 'not_converged'
                for step in zone['steps'][1:])
            for edi in truth['editions'] for resp in edi['responses']
            for zone in resp['zone_data'] if not zone.get('mesh'))
        if num < 2 and 4000 < len(text) <= SMALL:
            out[f'generated_{num}.res'] = text
            num += 1
            mixed = mixed or is_mixed
        elif is_mixed and not mixed and len(text) <= 4 * SMALL:
            out['generated_mixed_convergence.res'] = text
            mixed = True
        if num == 2 and mixed:
            break
    return out


def load_all():
    data = {}
    for path in listings():
        with open(path, 'rb') as fil:
            data[os.path.basename(path)] = fil.read()
    data.update(synthetic(data))
    data.update(generated())
    return data


def offsets_for(name, data, tier, rng):
    '''(sorted offsets, exhaustive?, set of offsets inside interpreted
    lines).'''
    size = len(data)
    inside = set()
    bounds = set()
    bykey = {}
    pos = 0
    for line in data.split(b'\n'):
        text = line.decode('utf-8', 'ignore')
        bounds.add(pos)
        bounds.add(min(size, pos + len(line) + 1))
        if len(line) < 250 and any(k in text for k in KEYS):
            key = next(k for k in KEYS if k in text)
            bykey.setdefault(key, []).append(
                (pos, min(size, pos + len(line) + 1) + 1))
            inside.update(range(pos, min(size, pos + len(line) + 1) + 1))
        pos += len(line) + 1
    if tier == 'thorough' or size <= SMALL:
        return list(range(size + 1)), True, inside
    # quick tier: per kind of interpreted line, every offset of the first
    # and last three such lines and of a seeded 12 % of the others
    offs = set(bounds)
    for key, spans in sorted(bykey.items()):
        for i, (lo, hi) in enumerate(spans):
            if i < 3 or i >= len(spans) - 3 or rng.random() < 0.12:
                offs.update(range(lo, hi))
    nsample = 600
    offs.update(rng.randrange(size + 1) for _ in range(nsample))
    offs.add(size)
    del name
    return sorted(o for o in offs if o <= size), False, inside


def plan(tier, seed):
    data = load_all()
    specs = []
    chunk = 1500 if tier == 'quick' else 6000
    shard = 0
    for name in sorted(data):
        rng = core.rng_for(seed, PROP, 'offsets', name)
        offs, _, _ = offsets_for(name, data[name], tier, rng)
        for lo in range(0, len(offs), chunk):
            specs.append({'prop': PROP, 'tier': tier, 'seed': seed,
                          'shard': shard, 'listing': name, 'lo': lo,
                          'hi': min(len(offs), lo + chunk),
                          'hashseed': 1 + shard % 5})
            shard += 1
    # expensive shards (late offsets of big listings) first
    specs.sort(key=lambda s: -len(data[s['listing']]) * (1 + s['lo']))
    return specs


def responses_digest(pres):
    res = pres.res
    keep = {k: v for k, v in res.items()
            if k not in ('batch_data', 'run_data')}
    return snapshot.digest(keep), snapshot.digest(res.get('batch_data'))


def site_of(err):
    '''Innermost frame inside valjean: "function" (mechanism key).'''
    frames = traceback.extract_tb(err.__traceback__)
    for frame in reversed(frames):
        if '/valjean/' in frame.filename:
            return f'{os.path.basename(frame.filename)}:{frame.name}'
    return 'outside-valjean'


def reference(path, steps, rec, case):
    '''Digests of every edition of the complete listing, and the step count
    of scanning + parsing it.'''
    import json
    from valjean.eponine.tripoli4.parse import Parser, ParserException
    # shards of one run share their working directory: compute once
    cache = os.path.join(os.getcwd(), 'c11-ref-' + case['listing'] + '.json')
    if os.path.exists(cache):
        try:
            with open(cache) as fil:
                dct = json.load(fil)
            ref = None if dct['ref'] is None else \
                {int(k): tuple(v) for k, v in dct['ref'].items()}
            return ref, dct['steps']
        except (OSError, ValueError, KeyError):
            pass
    ref, nsteps = _reference(path, steps, rec, case)
    try:
        with open(cache + f'.{os.getpid()}', 'w') as fil:
            json.dump({'ref': ref, 'steps': nsteps}, fil)
        os.replace(cache + f'.{os.getpid()}', cache)
    except OSError:
        pass
    return ref, nsteps


def _reference(path, steps, rec, case):
    from valjean.eponine.tripoli4.parse import Parser, ParserException
    ref = {}
    steps.start()
    try:
        par = Parser(path)
    except ParserException:
        return None, max(steps.stop(), 1)
    except Exception as err:  # pylint: disable=broad-except
        steps.stop()
        rec.violation(f'complete-listing-scan-raised-{type(err).__name__}-in-'
                      f'{site_of(err)}', f'{case["listing"]}: {err!r}', case)
        return None, 10 ** 6
    for bnum in par.batch_numbers():
        try:
            ref[bnum] = responses_digest(par.parse_from_number(bnum))
        except ParserException:
            ref[bnum] = ('ParserException', None)
        except Exception as err:  # pylint: disable=broad-except
            ref[bnum] = ('raised', None)
            rec.violation(f'complete-listing-parse-raised-'
                          f'{type(err).__name__}-in-{site_of(err)}',
                          f'{case["listing"]} edition {bnum}: {err!r}', case)
    return ref, max(steps.stop(), 1)


FRESH = r'''
import sys, logging, warnings
warnings.simplefilter('ignore'); logging.disable(logging.CRITICAL)
from valjean.eponine.tripoli4.parse import Parser, ParserException
try:
    par = Parser(sys.argv[1])
    nums = par.batch_numbers()
    try:
        par.parse_from_number(nums[-1])
        print('OUTCOME parsed', len(nums))
    except ParserException:
        print('OUTCOME parse-ParserException', len(nums))
    except Exception as err:
        print('OUTCOME parse-raised-' + type(err).__name__, len(nums))
except ParserException:
    print('OUTCOME scan-ParserException 0')
except Exception as err:
    print('OUTCOME scan-raised-' + type(err).__name__, 0)
'''


def debug_parser(path, nums, budget, steps, rec, name, cut, case, parse):
    '''The debugging variant of the parser (its second way of scanning) on
    the same prefix: same error type or success, same editions found.'''
    from valjean.eponine.tripoli4.parse import ParserException
    from valjean.eponine.tripoli4.parse_debug import ParserDebug
    rec.count('debug_parser_opened')
    steps.start(budget)
    try:
        par = ParserDebug(path)
        got = par.batch_numbers()
        if parse:
            par.parse_from_number(got[-1])
            rec.count('debug_parser_parsed')
    except ParserException:
        got = None
    except StepBudget as err:
        rec.violation('debug-parser-exceeded-step-budget',
                      f'{name} cut at {cut}: {err}', case)
        return
    except Exception as err:  # pylint: disable=broad-except
        rec.violation(f'debug-parser-raised-{type(err).__name__}-in-'
                      f'{site_of(err)}', f'{name} cut at {cut}: {err!r}',
                      case)
        return
    finally:
        steps.stop()
    if not parse and (got is None) != (nums is None):
        rec.violation('debug-parser-and-parser-disagree', f'{name} cut at '
                      f'{cut}: Parser found editions {nums}, ParserDebug '
                      f'{got}', case)


def run(spec, rec):
    # pylint: disable=too-many-locals,too-many-branches,too-many-statements
    from valjean.eponine.tripoli4.parse import Parser, ParserException
    name, tier, seed = spec['listing'], spec['tier'], spec['seed']
    data = load_all()[name]
    rng = core.rng_for(seed, PROP, 'offsets', name)
    offs, exhaustive, inside = offsets_for(name, data, tier, rng)
    mine = offs[spec['lo']:spec['hi']]
    work = tempfile.mkdtemp(prefix='vf-c11-', dir=core.fast_tmp())
    steps = Steps()
    case0 = {'listing': name, 'seed': seed, 'tier': tier}
    rec.exhaustive[f'every byte offset: {name}'] = exhaustive
    try:
        full = os.path.join(work, 'full_' + name)
        with open(full, 'wb') as fil:
            fil.write(data)
        ref, full_steps = reference(full, steps, rec, case0)
        budget = 50 * full_steps + 10 ** 6
        rec.maxi('max_steps_complete_listing', full_steps)
        tmp = os.path.join(work, name)
        memo = {}          # edition text hash -> digest
        order = []
        rrng = core.rng_for(seed, PROP, 'reparse', name, spec['lo'])
        outcomes_by_off = {}
        for cut in mine:
            case = dict(case0, offset=cut)
            if rrng.random() < 0.04 and cut > 200:
                # other content of the same size at the same path, opened
                # just before: must leave no trace
                with open(tmp, 'wb') as fil:
                    fil.write(data[:cut].translate(DECOY))
                try:
                    decoy = Parser(tmp)
                    decoy.parse_from_number(decoy.batch_numbers()[-1])
                except Exception:  # pylint: disable=broad-except
                    pass
                rec.count('decoys_opened_before')
            with open(tmp, 'wb') as fil:
                fil.write(data[:cut])
            rec.count('prefixes')
            rec.count('evaluations')
            if cut in inside:
                rec.count('offsets_inside_interpreted_lines')
            line_kind = 'interpreted' if cut in inside else 'other'
            steps.start(budget)
            try:
                par = Parser(tmp)
            except ParserException:
                steps.stop()
                rec.count('outcome.scan-ParserException')
                outcomes_by_off[cut] = ('scan-ParserException', 0)
                rec.seen((name, 'scan-PE', 0, line_kind))
                if cut in inside and cut % 3 == 0:
                    debug_parser(tmp, None, budget, steps, rec, name, cut,
                                 case, parse=False)
                continue
            except StepBudget as err:
                steps.stop()
                rec.violation('scan-exceeded-step-budget', f'{name} cut at '
                              f'{cut}: {err}', case)
                continue
            except Exception as err:  # pylint: disable=broad-except
                steps.stop()
                rec.count('outcome.scan-raised')
                outcomes_by_off[cut] = (f'scan-raised-{type(err).__name__}',
                                        0)
                rec.violation(f'scan-raised-{type(err).__name__}-in-'
                              f'{site_of(err)}', f'{name} cut at {cut}/'
                              f'{len(data)}: {err!r}', case)
                continue
            used = steps.stop()
            rec.maxi('max_steps_scan', used)
            nums = par.batch_numbers()
            rec.count('outcome.scanned')
            if cut in inside and cut % 3 == 0:
                debug_parser(tmp, nums, budget, steps, rec, name, cut, case,
                             parse=rrng.random() < 0.02)
            # which editions to parse: the last one always, another sometimes
            todo = [nums[-1]]
            if len(nums) > 1 and rrng.random() < 0.05:
                todo.append(rrng.choice(nums[:-1]))
            for bnum in todo:
                text = par.scan_res[bnum]
                key = hashlib.sha1(text.encode('utf-8', 'replace')
                                   ).hexdigest()
                if key in memo and rrng.random() > 0.03:
                    rec.count('editions_memoised')
                    kind = memo[key][0]
                else:
                    steps.start(budget)
                    try:
                        dig = responses_digest(par.parse_from_number(bnum))
                        kind = 'parsed'
                    except ParserException:
                        dig, kind = None, 'parse-ParserException'
                    except StepBudget as err:
                        steps.stop()
                        rec.violation('parse-exceeded-step-budget',
                                      f'{name} cut at {cut} edition {bnum}: '
                                      f'{err}', case)
                        continue
                    except Exception as err:  # pylint: disable=broad-except
                        dig = None
                        kind = f'parse-raised-{type(err).__name__}'
                        rec.violation(f'{kind}-in-{site_of(err)}',
                                      f'{name} cut at {cut} edition {bnum}: '
                                      f'{err!r}', case)
                    used = steps.stop()
                    rec.maxi('max_steps_parse', used)
                    if key in memo:
                        rec.count('reparses')
                        if memo[key][0] != kind or (
                                dig and memo[key][1] and
                                memo[key][1][0] != dig[0]):
                            rec.violation('outcome-depends-on-what-was-'
                                          'parsed-before', f'{name} edition '
                                          f'{bnum} (cut {cut}): first '
                                          f'{memo[key][0]}, now {kind}',
                                          case)
                    else:
                        memo[key] = (kind, dig)
                        order.append((key, bnum, cut))
                    if kind == 'parsed':
                        rec.count('editions_parsed')
                        if ref is None or bnum not in ref:
                            rec.violation('edition-absent-from-the-complete-'
                                          'listing', f'{name} cut at {cut}: '
                                          f'edition {bnum} parsed, the '
                                          f'complete listing has '
                                          f'{sorted(ref or [])}', case)
                        elif ref[bnum][0] in ('ParserException', 'raised'):
                            rec.count('edition_parsed_but_not_in_complete')
                        else:
                            rec.count('editions_compared_with_complete_'
                                      'listing')
                            if ref[bnum][0] != dig[0]:
                                rec.violation(
                                    'edition-differs-from-the-complete-'
                                    'listing', f'{name} cut at {cut}/'
                                    f'{len(data)}: the responses of edition '
                                    f'{bnum} differ from those of the '
                                    'complete listing', case)
                            elif ref[bnum][1] != dig[1]:
                                rec.count('batch_data_differs(allowed)')
                rec.count('outcome.' + kind.split('-raised')[0])
                if bnum == nums[-1]:
                    outcomes_by_off[cut] = (kind, len(nums))
                rec.seen((name, kind, len(nums), line_kind))
        # re-parse a share of the memoised editions in another order, after
        # the failing parses above
        rrng.shuffle(order)
        for key, bnum, cut in order[:max(1, len(order) // 10)]:
            with open(tmp, 'wb') as fil:
                fil.write(data[:cut])
            try:
                par = Parser(tmp)
                dig = responses_digest(par.parse_from_number(bnum))
                kind = 'parsed'
            except ParserException:
                dig, kind = None, 'parse-ParserException'
            except Exception as err:  # pylint: disable=broad-except
                dig, kind = None, f'parse-raised-{type(err).__name__}'
            rec.count('reparses')
            if memo[key][0] != kind or (dig and memo[key][1]
                                        and memo[key][1][0] != dig[0]):
                rec.violation('outcome-depends-on-what-was-parsed-before',
                              f'{name} edition {bnum} (cut {cut}): first '
                              f'{memo[key][0]}, re-parsed later {kind}',
                              dict(case0, offset=cut))
        # after all those failures in this thread, another thread parses
        # the complete listing: it must come back
        import threading
        import time
        box = {}

        def other_thread():
            try:
                par2 = Parser(full)
                par2.parse_from_index(-1)
                box['out'] = 'parsed'
            except ParserException:
                box['out'] = 'ParserException'
            except Exception as err:  # pylint: disable=broad-except
                box['out'] = 'raised-' + type(err).__name__
        steps.start()
        thr = threading.Thread(target=other_thread, daemon=True)
        thr.start()
        # logical evidence of a hang: the thread is alive and no Python
        # function was entered anywhere in the process for 10 s
        last, since, t_0 = -1, time.monotonic(), time.monotonic()
        hung = False
        # (only builtins in this loop: it must not produce steps itself)
        while 'out' not in box and time.monotonic() - t_0 < 600:
            time.sleep(0.25)
            if steps.count != last:
                last, since = steps.count, time.monotonic()
            elif time.monotonic() - since > 10:
                hung = True
                break
        if hung:
            rec.violation('parse-hangs-in-another-thread-after-failed-'
                          'parses', f'{name}: a thread parsing the complete '
                          'listing has made no step for 10 s (the earlier '
                          'parses of this shard, some of which failed, ran '
                          'in the main thread)', case0)
        elif 'out' not in box:
            rec.count('other_thread_inconclusive')
        else:
            rec.count('other_thread_parses')
            if box.get('out', '').startswith('raised'):
                rec.violation(f'parse-in-another-thread-{box["out"]}',
                              f'{name}', case0)
        steps.stop()
        # a few prefixes again in a fresh process
        drv = os.path.join(work, 'fresh.py')
        with open(drv, 'w') as fil:
            fil.write(FRESH)
        picks = rrng.sample(sorted(outcomes_by_off),
                            min(3, len(outcomes_by_off)))
        for cut in picks:
            with open(tmp, 'wb') as fil:
                fil.write(data[:cut])
            out = subprocess.run([sys.executable, drv, tmp],
                                 capture_output=True, text=True, timeout=300,
                                 check=False)
            line = [ln for ln in out.stdout.splitlines()
                    if ln.startswith('OUTCOME')]
            if not line:
                rec.count('fresh_process_inconclusive')
                continue
            rec.count('fresh_process_repeats')
            kind, num = line[0].split()[1:3]
            mine_kind, mine_num = outcomes_by_off[cut]
            if (kind, int(num)) != (mine_kind, mine_num):
                rec.violation('outcome-differs-in-a-fresh-process',
                              f'{name} cut at {cut}: in this process '
                              f'{(mine_kind, mine_num)}, in a fresh one '
                              f'{(kind, int(num))}', dict(case0, offset=cut))
        if spec['lo'] == 0:
            rec.sample({'listing': name, 'size': len(data),
                        'offsets_in_this_tier': len(offs),
                        'exhaustive': exhaustive,
                        'editions_in_complete_listing':
                        sorted(ref) if ref else None})
    finally:
        shutil.rmtree(work, ignore_errors=True)
    for cnt in DECIDING:
        rec.count(cnt, 0)


def replay(case, rec):
    spec = {'listing': case['listing'], 'tier': 'thorough',
            'seed': case.get('seed', 0), 'lo': case.get('offset', 0),
            'hi': case.get('offset', 0) + 1}
    run(spec, rec)
