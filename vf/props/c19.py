'''C19 -- a failing command is never reported as done and its output is captured
intact.

Monitor: RunTask objects are given scripted command lines (``sh -c`` scripts
that write a unique line on each stream, touch a marker file and exit with a
chosen status or kill themselves; missing and non-executable programs at any
position) and are executed directly and through the real scheduler, several at
a time.  The oracle is the script: which commands must have run (marker
files), the status, the recorded return codes, the ordered content of the
captured files, and the directory each task owns.'''
import os
import shutil
import stat
import tempfile

from vf import core

PROP = 'C19'
LEVEL = 'exploration'
RULE = ('tasks of 1-6 scripted command lines with exit statuses in {0, 1, 2, '
        '127, 255, killed by a signal}, output on both streams, a missing or '
        'non-executable program at any position; task names including the '
        'empty string, a/b, "..", NUL, spaces, unicode, leading dot; executed '
        'directly (do) and through the scheduler with 1-4 workers and several '
        'tasks at once; complete enumeration of the position of the first '
        'failure for lists of <= 4 commands; distinct = distinct (exit code '
        'pattern, failure kind, name class, engine)')
DECIDING = ['tasks_run', 'commands_scripted', 'marker_checks',
            'output_files_compared', 'scheduler_runs', 'directory_checks']
ASSUMPTIONS = ['/bin/sh is available; marker files are created by the '
               'scripts themselves',
               'when do() raises for a program that cannot be started no '
               'return codes are recorded: only status FAILED through the '
               'scheduler is required']
SHARD_TIMEOUT = {'quick': 900, 'thorough': 3000}
CODES = [0, 0, 0, 1, 2, 127, 255, 'sig9', 'sig15']
NAMES = ['t', 'task one', 'tâche', '.hidden', 'a.b', 'x' * 40, 'UP', 'up',
         'trailing ', '-dash', 'semi;colon', '$HOME', 'quo"te', "it's"]
BAD_NAMES = ['', 'a/b', '..', '.', 'nul\0x', '/abs', 't/', './t', 't/.', 't//',
             './', '../', 'up/']


def plan(tier, seed):
    total = 4800 if tier == 'quick' else 100000
    specs = core.std_plan(PROP, tier, seed, quick=total, thorough=total,
                          mode='random')
    specs.append({'prop': PROP, 'tier': tier, 'seed': seed, 'shard': 99,
                  'mode': 'enum', 'hashseed': 3})
    return specs


def script_for(uid, code, marker):
    # every third command also writes carriage returns (progress bars, DOS
    # line ends): the capture must hold the bytes written
    extra = "printf 'CR_%s\\r\\nbar\\rX\\n' " + uid + '; ' \
        if sum(map(ord, uid)) % 3 == 0 else ''
    out = (f"echo OUT_{uid}; {extra}echo ERR_{uid} >&2; : > '{marker}'; ")
    if code == 'sig9':
        return out + 'kill -9 $$'
    if code == 'sig15':
        return out + 'kill -15 $$'
    return out + f'exit {code}'


def gen_task(rng, root, tid, ncmd=None, codes=None, bad=None):
    '''Scripted command lines of one task.'''
    ncmd = ncmd or rng.randint(1, 6)
    cmds = []
    for pos in range(ncmd):
        uid = f'{tid}_{pos}'
        marker = os.path.join(root, 'markers', uid)
        code = codes[pos] if codes else rng.choice(CODES)
        kind = 'sh'
        if bad is not None and bad[0] == pos:
            kind = bad[1]
        elif bad is None and rng.random() < 0.06:
            kind = rng.choice(['missing', 'noexec', 'missing_rel'])
        if kind == 'sh':
            cli = ['sh', '-c', script_for(uid, code, marker)]
        elif kind == 'missing':
            cli = ['/nonexistent/dir/prog', 'arg']
        elif kind == 'missing_rel':
            cli = ['no-such-program-vf', 'arg']
        else:
            cli = [os.path.join(root, 'noexec.sh'), 'arg']
        cmds.append({'uid': uid, 'code': code, 'kind': kind, 'cli': cli,
                     'marker': marker})
    return cmds


def expectation(cmds):
    '''(commands that run, expected codes, status, start failure?).'''
    ran, codes = [], []
    for cmd in cmds:
        if cmd['kind'] != 'sh':
            return ran, codes, 'FAILED', True
        ran.append(cmd)
        code = cmd['code']
        num = {'sig9': -9, 'sig15': -15}.get(code, code)
        codes.append(num)
        if num != 0:
            return ran, codes, 'FAILED', False
    return ran, codes, 'DONE', False


def read(path):
    try:
        with open(path, 'rb') as fil:
            return fil.read().decode('utf-8', 'replace')
    except OSError as err:
        return f'<<unreadable: {err}>>'


def judge(name, cmds, status, update, root, rec, case, raised=None):
    '''Compare what happened with the script.'''
    # pylint: disable=too-many-arguments,too-many-locals,too-many-branches
    ran, codes, exp_status, startfail = expectation(cmds)
    rec.count('tasks_run')
    rec.count('commands_scripted', len(cmds))
    tag = 'start-failure' if startfail else ('failing' if exp_status ==
                                             'FAILED' else 'passing')
    for cmd in cmds:
        if cmd['kind'] != 'sh':
            continue
        rec.count('marker_checks')
        exists = os.path.exists(cmd['marker'])
        should = cmd in ran
        if exists and not should:
            rec.violation('command-run-after-first-failure',
                          f'{name!r}: command {cmd["uid"]} ran although an '
                          f'earlier command failed (codes '
                          f'{[c["code"] for c in cmds]})', case)
        elif should and not exists:
            rec.violation('command-not-run', f'{name!r}: command '
                          f'{cmd["uid"]} should have run', case)
    if raised is not None:
        if not startfail:
            rec.violation(f'do-raised-{type(raised).__name__}',
                          f'{name!r}: {raised!r}', case)
        return
    sname = getattr(status, 'name', repr(status))
    if sname != exp_status:
        rec.violation(f'status-{sname}-expected-{exp_status}-{tag}',
                      f'{name!r}: exit codes {[c["code"] for c in cmds]}, '
                      f'kinds {[c["kind"] for c in cmds]}: status {sname}',
                      case)
    entry = (update or {}).get(name)
    if not isinstance(entry, dict) or 'return_codes' not in entry:
        if not startfail:
            rec.violation('no-return-codes-recorded', f'{name!r}: {update}',
                          case)
        return
    if list(entry['return_codes']) != codes:
        rec.violation('return-codes-differ', f'{name!r}: recorded '
                      f'{entry["return_codes"]}, the commands run exited '
                      f'with {codes}', case)
    rec.count('output_files_compared')
    out = read(entry['stdout'])
    want_out = ''.join(
        f'OUT_{c["uid"]}\n' + (f'CR_{c["uid"]}\r\nbar\rX\n'
                               if sum(map(ord, c['uid'])) % 3 == 0 else '')
        for c in ran)
    if out != want_out:
        rec.violation('stdout-differs', f'{name!r}: captured {out!r}, '
                      f'expected {want_out!r}', case)
    err_lines = [ln for ln in read(entry['stderr']).splitlines()
                 if ln.startswith('ERR_')]
    if err_lines != [f'ERR_{c["uid"]}' for c in ran]:
        rec.violation('stderr-differs', f'{name!r}: ERR lines {err_lines}, '
                      f'expected {[c["uid"] for c in ran]}', case)
    rec.count('directory_checks')
    outdir = os.path.realpath(entry['output_dir'])
    rroot = os.path.realpath(os.path.join(root, 'out'))
    if outdir == rroot or not outdir.startswith(rroot + os.sep):
        rec.violation('output-directory-is-not-a-subdirectory-of-its-own',
                      f'{name!r}: output directory {outdir} (output root '
                      f'{rroot})', case)
    elif os.path.dirname(outdir) != rroot:
        rec.violation('output-directory-nested', f'{name!r}: {outdir}', case)
    for key in ('stdout', 'stderr'):
        if os.path.dirname(os.path.realpath(entry[key])) != outdir:
            rec.violation('captured-file-outside-task-directory',
                          f'{name!r}: {key} at {entry[key]}', case)


def setup_root():
    root = tempfile.mkdtemp(prefix='vf-c19-', dir=core.fast_tmp())
    os.makedirs(os.path.join(root, 'markers'))
    os.makedirs(os.path.join(root, 'out'))
    noexec = os.path.join(root, 'noexec.sh')
    with open(noexec, 'w') as fil:
        fil.write('#!/bin/sh\nexit 0\n')
    os.chmod(noexec, stat.S_IRUSR | stat.S_IWUSR)
    return root


def make_config(root):
    from valjean.config import Config
    config = Config()
    config.set('path', 'output-root', os.path.join(root, 'out'))
    return config


def direct_case(rng, rec, case, cmds=None, name=None):
    from valjean.cosette.run import RunTask
    from valjean.cosette.env import Env
    root = setup_root()
    try:
        name = name if name is not None else rng.choice(NAMES)
        cmds = cmds or gen_task(rng, root, 'd')
        cmds = relocate(cmds, root)
        task = RunTask.from_clis(name, [c['cli'] for c in cmds])
        try:
            update, status = task.do(Env(), make_config(root))
        except Exception as err:  # pylint: disable=broad-except
            judge(name, cmds, None, None, root, rec, case, raised=err)
            return
        judge(name, cmds, status, update, root, rec, case)
        rec.seen(([c['code'] for c in cmds], [c['kind'] for c in cmds],
                  'direct'))
    finally:
        shutil.rmtree(root, ignore_errors=True)


def twice_case(rng, rec, case):
    '''One task object executed twice, with another environment (the command
    line is taken from it) and another output root the second time.'''
    from valjean.cosette.run import RunTaskFactory
    from valjean.cosette.env import Env
    name = rng.choice(NAMES)
    factory = RunTaskFactory.from_executable(
        '/bin/sh', name='sh' + name, default_args=['-c', '{env[script]}'])
    task = factory.make(name=name)
    name = task.name          # the factory appends its own name
    roots = []
    try:
        for run_no in range(2):
            root = setup_root()
            roots.append(root)
            cmds = gen_task(rng, root, f'w{run_no}', ncmd=1,
                            codes=[rng.choice(CODES)], bad=(9, 'sh'))
            cmds[0]['cli'] = ['/bin/sh', '-c', cmds[0]['cli'][2]]
            env = Env({'script': cmds[0]['cli'][2]})
            try:
                update, status = task.do(env, make_config(root))
            except Exception as err:  # pylint: disable=broad-except
                judge(name, cmds, None, None, root, rec, case, raised=err)
                return
            judge(name, cmds, status, update, root, rec, case)
            rec.count('same_task_object_executed_again', run_no)
        rec.seen(('twice', name))
    finally:
        for root in roots:
            shutil.rmtree(root, ignore_errors=True)


def timeout_case(rng, rec, case):
    '''The optional `timeout` of the subprocess arguments: a command that is
    still running when it expires did not exit with status zero -- the task
    is not DONE and the commands after it are not run.'''
    from valjean.cosette.run import RunTask
    from valjean.cosette.env import Env
    import subprocess
    root = setup_root()
    try:
        name = rng.choice(NAMES)
        before = gen_task(rng, root, 'o', ncmd=rng.choice([0, 1]) or 1,
                          codes=[0], bad=(9, 'sh'))
        if rng.random() < 0.5:
            before = []
        after = gen_task(rng, root, 'p', ncmd=1, codes=[0], bad=(9, 'sh'))
        slow_marker = os.path.join(root, 'markers', 'slow')
        slow = ['sh', '-c', f": > '{slow_marker}'; sleep 3; exit 0"]
        clis = [c['cli'] for c in before] + [slow] + [c['cli'] for c in after]
        task = RunTask.from_clis(name, clis, timeout=0.25)
        rec.count('timeout_cases')
        status, raised = None, None
        try:
            _, status = task.do(Env(), make_config(root))
        except subprocess.TimeoutExpired as err:
            raised = err       # the scheduler turns this into FAILED
        except Exception as err:  # pylint: disable=broad-except
            rec.violation(f'do-raised-{type(err).__name__}-on-timeout',
                          repr(err), case)
            return
        if not os.path.exists(slow_marker):
            rec.violation('command-not-run', f'{name!r}: the slow command '
                          'did not start', case)
        if raised is None and getattr(status, 'name', '') == 'DONE':
            rec.violation('status-DONE-although-a-command-was-killed-by-the-'
                          'timeout', f'{name!r}: commands {len(clis)}, the '
                          'slow one was killed after 0.25 s', case)
        if os.path.exists(after[0]['marker']):
            rec.violation('command-run-after-first-failure',
                          f'{name!r}: the command after the one killed by '
                          'the timeout was run', case)
        rec.seen(('timeout', len(before)))
    finally:
        shutil.rmtree(root, ignore_errors=True)


def lookup_case(rng, rec, case):
    '''Executables that only the command itself can find: a script written
    into the task's directory by the previous command (./step2.sh), and a
    tool found through the PATH given in the subprocess arguments.'''
    from valjean.cosette.run import RunTask
    from valjean.cosette.env import Env
    root = setup_root()
    try:
        name = rng.choice(NAMES)
        code = rng.choice([0, 0, 3])
        marker = os.path.join(root, 'markers', 'second')
        how = rng.choice(['relative', 'path'])
        if how == 'relative':
            first = ("printf '#!/bin/sh\\necho OUT_second\\n: > %s\\n"
                     "exit %d\\n' > step2.sh; chmod +x step2.sh; "
                     "echo OUT_first" % (marker, code))
            clis = [['sh', '-c', first], ['./step2.sh']]
            kwargs = {}
        else:
            bindir = os.path.join(root, 'tools')
            os.makedirs(bindir)
            tool = os.path.join(bindir, 'vf-only-here')
            with open(tool, 'w') as fil:
                fil.write('#!/bin/sh\necho OUT_second\n: > %s\nexit %d\n'
                          % (marker, code))
            os.chmod(tool, 0o755)
            clis = [['sh', '-c', 'echo OUT_first'], ['vf-only-here']]
            kwargs = {'env': {'PATH': bindir + ':/usr/bin:/bin'}}
        task = RunTask.from_clis(name, clis, **kwargs)
        rec.count('lookup_cases')
        try:
            update, status = task.do(Env(), make_config(root))
        except Exception as err:  # pylint: disable=broad-except
            rec.violation(f'do-raised-{type(err).__name__}-for-an-executable-'
                          f'only-the-command-finds', f'{how}: {err!r}', case)
            return
        entry = (update or {}).get(name) or {}
        want_status = 'DONE' if code == 0 else 'FAILED'
        if not os.path.exists(marker):
            rec.violation('command-not-run', f'{name!r} ({how}): the second '
                          'command was not run', case)
        elif getattr(status, 'name', '') != want_status or \
                list(entry.get('return_codes', [])) != [0, code]:
            rec.violation('return-codes-differ', f'{name!r} ({how}): status '
                          f'{status}, return codes '
                          f'{entry.get("return_codes")}, expected [0, '
                          f'{code}]', case)
        elif read(entry['stdout']) != 'OUT_first\nOUT_second\n':
            rec.violation('stdout-differs', f'{name!r} ({how}): captured '
                          f'{read(entry["stdout"])!r}', case)
        rec.seen(('lookup', how, code))
    finally:
        shutil.rmtree(root, ignore_errors=True)


def relocate(cmds, root):
    '''Point the markers of pre-built commands to this root.'''
    out = []
    for cmd in cmds:
        cmd = dict(cmd)
        cmd['marker'] = os.path.join(root, 'markers', cmd['uid'])
        if cmd['kind'] == 'sh':
            cmd['cli'] = ['sh', '-c', script_for(cmd['uid'], cmd['code'],
                                                 cmd['marker'])]
        elif cmd['kind'] == 'noexec':
            cmd['cli'] = [os.path.join(root, 'noexec.sh'), 'arg']
        out.append(cmd)
    return out


def scheduler_case(rng, rec, case):
    '''Several tasks at once through the real scheduler.'''
    # pylint: disable=too-many-locals
    from valjean.cosette.run import RunTask
    from valjean.cosette.env import Env
    from valjean.cosette.depgraph import DepGraph
    from valjean.cosette.scheduler import Scheduler
    from valjean.cosette.backends.queue import QueueScheduling
    root = setup_root()
    try:
        ntasks = rng.randint(2, 5)
        names = rng.sample(NAMES, ntasks)
        if rng.random() < 0.3:
            # two legal names that differ only by surrounding white space
            base = rng.choice(['pair', 'a b'])
            names[0], names[1] = base, rng.choice([base + ' ', ' ' + base])
        if rng.random() < 0.3:
            names[rng.randrange(ntasks)] = rng.choice(BAD_NAMES)
        maybe = set(BAD_NAMES)
        if rng.random() < 0.15 and ntasks >= 2:
            # names longer than what the file system accepts, differing only
            # in their tail: refused, or each in a directory of its own
            stem = 'long' * 70
            names[0], names[1] = stem + 'A', stem + 'B'
            maybe.update(names[:2])
        scripted = {}
        graph = DepGraph()
        for i, name in enumerate(names):
            cmds = gen_task(rng, root, f's{i}')
            scripted[name] = cmds
            graph.add_node(RunTask.from_clis(name, [c['cli'] for c in cmds]))
        env = Env()
        try:
            Scheduler(hard_graph=graph, backend=QueueScheduling(
                n_workers=rng.randint(1, 4))).schedule(
                    env=env, config=make_config(root))
        except Exception as err:  # pylint: disable=broad-except
            rec.violation(f'start-failure-escaped-the-scheduler-'
                          f'{type(err).__name__}', f'{names}: {err!r}', case)
            return
        rec.count('scheduler_runs')
        dirs = {}
        for name in names:
            entry = env.get(name, {})
            status = entry.get('status')
            cmds = scripted[name]
            if name in maybe:
                rec.count('bad_names_tried')
                if 'output_dir' in entry:
                    dirs.setdefault(os.path.realpath(entry['output_dir']),
                                    []).append(name)
                if getattr(status, 'name', None) == 'DONE' or \
                        'output_dir' in entry:
                    outdir = os.path.realpath(entry.get('output_dir', ''))
                    rroot = os.path.realpath(os.path.join(root, 'out'))
                    if outdir == rroot or os.path.dirname(outdir) != rroot:
                        rec.violation(
                            'output-directory-is-not-a-subdirectory-of-its-'
                            'own', f'task named {name!r} ran with output '
                            f'directory {outdir} (root {rroot})', case)
                continue
            judge(name, cmds, status, {name: entry} if 'return_codes' in
                  entry else {}, root, rec, case)
            if 'output_dir' in entry:
                dirs.setdefault(os.path.realpath(entry['output_dir']),
                                []).append(name)
        for path, owners in dirs.items():
            if len(owners) > 1:
                rec.violation('two-tasks-share-a-directory',
                              f'{owners} -> {path}', case)
        rec.seen((sorted(n in BAD_NAMES for n in names), ntasks, 'sched'))
    finally:
        shutil.rmtree(root, ignore_errors=True)


FAKE = '''#!/bin/sh
# scripted stand-in for git / cmake: logs its call, exits as planned
dir="$(dirname "$0")"
n=$(cat "$dir/counter")
echo $((n + 1)) > "$dir/counter"
echo "call_$n $*" >> "$dir/calls"
echo "TOOL_OUT_$n"
echo "TOOL_ERR_$n" >&2
code=$(sed -n "$((n + 1))p" "$dir/plan")
case "$code" in
  sig9) kill -9 $$ ;;
  *) exit $code ;;
esac
'''


def vcs_case(rng, rec, case):
    '''CheckoutTask / BuildTask with GIT / CMAKE pointed at a scripted fake:
    two commands in a row each (clone + checkout, configure + build).'''
    # pylint: disable=too-many-locals
    from valjean.cosette.code import CheckoutTask, BuildTask
    from valjean.cosette.env import Env
    root = setup_root()
    saved = (CheckoutTask.GIT, BuildTask.CMAKE)
    try:
        tool = os.path.join(root, 'tool', 'fake.sh')
        os.makedirs(os.path.dirname(tool))
        with open(tool, 'w') as fil:
            fil.write(FAKE)
        os.chmod(tool, 0o755)
        codes = [rng.choice([0, 0, 0, 1, 2, 255, 'sig9']) for _ in range(2)]
        with open(os.path.join(root, 'tool', 'plan'), 'w') as fil:
            fil.write('\n'.join(str(c) for c in codes) + '\n')
        with open(os.path.join(root, 'tool', 'counter'), 'w') as fil:
            fil.write('0\n')
        config = make_config(root)
        config.set('path', 'log-root', os.path.join(root, 'log'))
        kind = rng.choice(['checkout', 'build'])
        name = rng.choice(['co', 'build it', 'tâche'])
        if kind == 'checkout':
            CheckoutTask.GIT = tool
            task = CheckoutTask(name, repository=os.path.join(root, 'repo'),
                                ref=rng.choice([None, 'v1']),
                                flags=rng.choice([None, ['--depth', '1']]))
        else:
            BuildTask.CMAKE = tool
            src = os.path.join(root, 'src')
            os.makedirs(src)
            task = BuildTask(name, src, targets=rng.choice([None, ['all'],
                                                            ['a', 'b']]),
                             build_flags=rng.choice([None, ['-j2']]))
        rec.count('tasks_run')
        rec.count('vcs_tasks_run')
        try:
            update, status = task.do(Env(), config)
        except Exception as err:  # pylint: disable=broad-except
            rec.violation(f'do-raised-{type(err).__name__}',
                          f'{kind} task: {err!r}', case)
            return
        ncalls = 0
        calls_file = os.path.join(root, 'tool', 'calls')
        if os.path.exists(calls_file):
            with open(calls_file) as fil:
                ncalls = len(fil.read().splitlines())
        exp_calls = 1 if codes[0] != 0 else 2
        exp_status = 'DONE' if codes == [0, 0] else 'FAILED'
        rec.count('commands_scripted', 2)
        rec.count('marker_checks', 2)
        if ncalls != exp_calls:
            key = ('command-run-after-first-failure' if ncalls > exp_calls
                   else 'command-not-run')
            rec.violation(key, f'{kind} task with exit codes {codes}: '
                          f'{ncalls} tool invocations, expected {exp_calls}',
                          case)
        sname = getattr(status, 'name', repr(status))
        if sname != exp_status:
            rec.violation(f'status-{sname}-expected-{exp_status}-vcs',
                          f'{kind} task with exit codes {codes}: {sname}',
                          case)
        entry = update.get(name, {})
        log = entry.get('checkout_log') or entry.get('build_log')
        rec.count('output_files_compared')
        text = read(log) if log else ''
        outs = [ln for ln in text.splitlines()
                if ln.startswith(('TOOL_OUT_', 'TOOL_ERR_'))]
        want = []
        for i in range(exp_calls):
            want += [f'TOOL_OUT_{i}', f'TOOL_ERR_{i}']
        if sorted(outs) != sorted(want) or \
                [o for o in outs if 'OUT' in o] != [w for w in want
                                                    if 'OUT' in w]:
            rec.violation('stdout-differs', f'{kind} task with exit codes '
                          f'{codes}: log holds {outs}, expected {want}', case)
        rec.count('directory_checks')
        outdir = os.path.realpath(entry.get('output_dir', ''))
        rroot = os.path.realpath(os.path.join(root, 'out'))
        if os.path.dirname(outdir) != rroot:
            rec.violation('output-directory-is-not-a-subdirectory-of-its-own',
                          f'{kind} task {name!r}: {outdir}', case)
        rec.seen((kind, tuple(codes), 'vcs'))
    finally:
        CheckoutTask.GIT, BuildTask.CMAKE = saved
        shutil.rmtree(root, ignore_errors=True)


def run_random(spec, rec):
    seed = spec['seed']
    for idx in range(spec['lo'], spec['hi']):
        rng = core.rng_for(seed, PROP, idx)
        case = {'seed': seed, 'idx': idx, 'mode': 'random'}
        rec.count('evaluations')
        one(rng, idx, rec, case)


def one(rng, idx, rec, case):
    if idx % 10 == 9:
        vcs_case(rng, rec, case)
    elif idx % 3 == 0:
        scheduler_case(rng, rec, case)
    elif idx % 3 == 1:
        if idx % 12 == 1:
            twice_case(rng, rec, case)
        elif idx % 60 == 4:
            timeout_case(rng, rec, case)
        elif idx % 60 == 16:
            lookup_case(rng, rec, case)
        else:
            direct_case(rng, rec, case)
    else:
        # a name that cannot be a directory of its own must be rejected
        name = rng.choice(BAD_NAMES)
        bad_name_case(rng, name, rec, case)
    if idx % 120 == 0:
        rec.sample({'idx': idx, 'what': ['scheduler', 'direct',
                                         'bad name'][idx % 3]})


def bad_name_case(rng, name, rec, case):
    from valjean.cosette.run import RunTask
    from valjean.cosette.env import Env
    root = setup_root()
    try:
        cmds = gen_task(rng, root, 'b', codes=[0, 0], ncmd=2, bad=(9, 'sh'))
        rec.count('bad_names_tried')
        try:
            task = RunTask.from_clis(name, [c['cli'] for c in cmds])
            update, status = task.do(Env(), make_config(root))
        except (ValueError, OSError):
            rec.count('bad_names_rejected')
            if any(os.path.exists(c['marker']) for c in cmds):
                rec.violation('command-run-for-rejected-name',
                              f'{name!r}', case)
            return
        rec.count('directory_checks')
        entry = update.get(name, {})
        outdir = os.path.realpath(entry.get('output_dir', ''))
        rroot = os.path.realpath(os.path.join(root, 'out'))
        if outdir == rroot or os.path.dirname(outdir) != rroot:
            rec.violation('output-directory-is-not-a-subdirectory-of-its-own',
                          f'task named {name!r} ran ({status}) with output '
                          f'directory {outdir} (output root {rroot})', case)
    finally:
        shutil.rmtree(root, ignore_errors=True)


def run_enum(spec, rec):
    '''Failure (each kind) at every position of lists of 1-4 commands.'''
    rng = core.rng_for(spec['seed'], PROP, 'enum')
    num = 0
    for ncmd in range(1, 5):
        for pos in range(ncmd):
            for kind in (1, 255, 'sig9', 'missing', 'noexec'):
                codes = [0] * ncmd
                bad = None
                if kind in ('missing', 'noexec'):
                    bad = (pos, kind)
                else:
                    codes[pos] = kind
                cmds = gen_task(rng, '/tmp', f'e{num}', ncmd=ncmd,
                                codes=codes, bad=bad or (99, 'sh'))
                case = {'seed': spec['seed'], 'mode': 'enum', 'ncmd': ncmd,
                        'pos': pos, 'kind': kind, 'num': num}
                rec.count('evaluations')
                direct_case(rng, rec, case, cmds=cmds, name=f'enum{num}')
                num += 1
    rec.exhaustive['first failure at every position, lists <= 4'] = True
    for name in ('scheduler_runs',):
        rec.count(name, 0)


def run(spec, rec):
    {'random': run_random, 'enum': run_enum}[spec['mode']](spec, rec)


def replay(case, rec):
    if case['mode'] == 'enum':
        run_enum({'seed': case['seed']}, rec)
        return
    rng = core.rng_for(case['seed'], PROP, case['idx'])
    rec.count('evaluations')
    one(rng, case['idx'], rec, case)
