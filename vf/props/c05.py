'''C05 -- Student test verdict is true exactly when every bin is statistically
compatible.

Monitor: every evaluation of the real TestStudent is compared, bin by bin,
with an independent decision (exact two-sided tail of |t| from
scipy.special / mpmath versus the level), together with the internal
consistency of oracles / verdict / p-values and four metamorphic relations
(swap, common rescaling by 2^k, growing difference, shrinking error).'''
import math
import warnings

import numpy as np

from vf import core, gen
from vf.oracles import stats

PROP = 'C05'
LEVEL = 'exploration'
RULE = ('random Student comparisons: shapes () to 4-d (<= 256 bins), 1-4 '
        'compared datasets, differences placed around the critical value, '
        'zero errors, NaN / +-inf injected on one or both sides, alpha '
        'log-uniform in [1e-10, 0.999] or 0.01 / 0.05, ndf None or in '
        '[1, 1e6]; distinct by (shape, number of datasets, ndf class, alpha '
        'decade, special-value pattern, failing-bin pattern hash); '
        'non-trivial when at least one bin was decided by the oracle')
DECIDING = ['bins_decided', 'verdicts_checked', 'metamorphic_checked',
            'pvalues_checked']
ASSUMPTIONS = ['scipy.special erfc/betainc (and mpmath on a sample and near '
               'the level) trusted as the law; decisions closer than 1e-6 '
               '(relative) to the level are not decided',
               '0/0 bins pass (documented); bins NaN on both sides are '
               '"do not care"']
TIE = 1e-6


def plan(tier, seed):
    return core.std_plan(PROP, tier, seed, quick=5000, thorough=120000)


def expected_bin(v_1, v_2, e_1, e_2, alpha, ndf, exact=False):
    '''Return (decision, p) where decision is True / False / None (not
    decided: don't care or near tie).'''
    # pylint: disable=too-many-return-statements,too-many-branches
    nan_v = (v_1 != v_1, v_2 != v_2)
    nan_e = (e_1 != e_1, e_2 != e_2)
    if all(nan_v):
        return None, None               # both values NaN: don't care
    if any(nan_v):
        return False, None              # NaN on one side only
    if all(nan_e):
        return None, None
    if any(nan_e):
        return False, None
    if math.isinf(v_1) or math.isinf(v_2):
        diff = v_1 - v_2
        if diff != diff:
            return None, None           # inf - inf
        if math.isinf(e_1) or math.isinf(e_2):
            return None, None           # inf / inf
        return False, 0.0
    if math.isinf(e_1) or math.isinf(e_2):
        return True, 1.0                # t = 0 exactly
    if e_1 == 0 and e_2 == 0:
        if v_1 == v_2:
            return True, None           # 0/0: documented as success
        return False, 0.0
    if e_1 * e_1 + e_2 * e_2 == 0 or math.isinf(e_1 * e_1 + e_2 * e_2):
        return None, None               # underflow / overflow of the squares
    pval = None
    if exact and stats.HAVE_MP:
        try:
            pval = float(stats.two_sided_p_exact(
                stats.exact_t(v_1, v_2, e_1, e_2), ndf))
        except ValueError:
            pval = None     # mpmath did not converge: use the fast variant
    if pval is None:
        tabs = abs(v_1 - v_2) / math.hypot(e_1, e_2)
        pval = stats.two_sided_p(tabs, ndf)
    if abs(pval - alpha) <= TIE * alpha:
        return None, pval
    return pval > alpha, pval


def gen_case(rng):
    '''Build the inputs of one comparison.'''
    # pylint: disable=too-many-locals
    from scipy.special import ndtri
    shp = gen.shape(rng)
    alpha = rng.choice([0.01, 0.05, 10 ** rng.uniform(-10, -0.0005),
                        10 ** rng.uniform(-40, -10),
                        10 ** rng.uniform(-3, -0.0005), rng.uniform(0.5,
                                                                    0.999)])
    ndf = rng.choice([None, None, int(10 ** rng.uniform(0, 6)),
                      rng.randint(1, 30), rng.uniform(1, 50)])
    nds = rng.choice([1, 1, 1, 2, 3, 4])
    size = int(np.prod(shp, dtype=int))
    thr_normal = thr = float(abs(ndtri(alpha / 2)))
    if ndf is not None:
        # the critical value of the law actually used (only to place the
        # cases; the oracle has its own)
        from scipy.special import stdtrit
        t_q = float(abs(stdtrit(ndf, alpha / 2)))
        if math.isfinite(t_q) and t_q > 0:
            thr = t_q
    ref_v = gen.values(rng, shp).ravel()
    ref_e = gen.errors(rng, shp).ravel()
    others = []
    p_fail = rng.choice([0.0, 0.0, 0.05, 0.3, 1.0])
    specials = set()
    for _ in range(nds):
        o_e = gen.errors(rng, shp).ravel()
        o_v = np.empty(size)
        for i in range(size):
            den = math.hypot(ref_e[i], o_e[i])
            if rng.random() < p_fail:
                tval = thr * rng.uniform(1.0, 3.0)
            elif ndf is not None and rng.random() < 0.15:
                # between the critical values of the normal and of the
                # Student law (compatible for the latter only)
                tval = rng.uniform(thr_normal, thr)
            else:
                tval = thr * rng.choice([0.0, rng.uniform(0, 1.0),
                                         rng.uniform(0.9, 1.0)])
            o_v[i] = ref_v[i] + rng.choice([-1, 1]) * tval * den
        others.append([o_v, o_e])
    if nds >= 2 and rng.random() < 0.08:
        # an exact compared dataset (no errors at all) that agrees with the
        # reference in a bin where the reference has no error either,
        # followed by other datasets compared with the same reference
        k = rng.randrange(nds - 1)
        others[k][1][:] = 0.0
        i = rng.randrange(size)
        ref_e[i] = 0.0
        others[k][0][i] = ref_v[i]
        specials.add('exact_dataset_first')
    # special values
    if rng.random() < 0.35:
        for _ in range(rng.randint(1, 3)):
            i = rng.randrange(size)
            what = rng.choice(['nan_v_one', 'nan_v_both', 'nan_e_one',
                               'nan_e_both', 'inf_v_one', 'inf_v_both',
                               'inf_e', 'zero_e_equal', 'zero_e_diff',
                               'zero_e_tiny_diff'])
            specials.add(what)
            k = rng.randrange(nds)
            o_v, o_e = others[k]
            if what == 'nan_v_one':
                if rng.random() < 0.5:
                    ref_v[i] = np.nan
                else:
                    o_v[i] = np.nan
            elif what == 'nan_v_both':
                ref_v[i] = np.nan
                o_v[i] = np.nan
            elif what == 'nan_e_one':
                if rng.random() < 0.5:
                    ref_e[i] = np.nan
                else:
                    o_e[i] = np.nan
            elif what == 'nan_e_both':
                ref_e[i] = np.nan
                o_e[i] = np.nan
            elif what == 'inf_v_one':
                o_v[i] = rng.choice([np.inf, -np.inf])
            elif what == 'inf_v_both':
                ref_v[i] = np.inf
                o_v[i] = rng.choice([np.inf, -np.inf])
            elif what == 'inf_e':
                o_e[i] = np.inf
            elif what == 'zero_e_equal':
                ref_e[i] = 0.0
                o_e[i] = 0.0
                o_v[i] = ref_v[i]
            elif what == 'zero_e_tiny_diff':
                # exact data that differ by very little: still incompatible
                ref_e[i] = 0.0
                o_e[i] = 0.0
                if rng.random() < 0.5:
                    ref_v[i] = rng.choice([0.0, 1e-9, -3e-10])
                o_v[i] = ref_v[i] + rng.choice([1e-9, -1e-9, 1e-12, 5e-10,
                                                1e-300])
            else:
                ref_e[i] = 0.0
                o_e[i] = 0.0
                o_v[i] = ref_v[i] + 1.0
    return {'shape': shp, 'alpha': alpha, 'ndf': ndf, 'ref': [ref_v, ref_e],
            'others': others, 'specials': sorted(specials)}


def build(cas, swap=False, scale=1.0, mod=None):
    '''Datasets and TestStudent for a generated case.'''
    from valjean.eponine.dataset import Dataset
    from valjean.gavroche.stat_tests.student import TestStudent
    shp = cas['shape']

    def mkds(val, err, name):
        val = np.array(val, dtype=float).reshape(shp) * scale
        err = np.array(err, dtype=float).reshape(shp) * scale
        if shp == ():
            val, err = np.float64(val), np.float64(err)
        return Dataset(val, err, name=name)
    ref = mkds(*cas['ref'], 'ref')
    others = []
    for k, (o_v, o_e) in enumerate(cas['others']):
        if mod is not None and mod[0] == k:
            o_v, o_e = mod[1], mod[2]
        others.append(mkds(o_v, o_e, f'ds{k}'))
    if swap:
        # only meaningful with one compared dataset
        return TestStudent(others[0], ref, name='t', alpha=cas['alpha'],
                           ndf=cas['ndf'])
    return TestStudent(ref, *others, name='t', alpha=cas['alpha'],
                       ndf=cas['ndf'])


def check_case(seed, idx, rec):
    # pylint: disable=too-many-locals,too-many-branches,too-many-statements
    rng = core.rng_for(seed, PROP, idx)
    cas = gen_case(rng)
    case = {'seed': seed, 'idx': idx}
    tag = (f'shape={list(cas["shape"])} alpha={cas["alpha"]!r} '
           f'ndf={cas["ndf"]!r} nds={len(cas["others"])} '
           f'specials={cas["specials"]}')
    rec.count('evaluations')
    with np.errstate(all='ignore'):
        try:
            test = build(cas)
            res = test.evaluate()
            verdict = bool(res)
            oracles = np.asarray(res.oracles())
        except Exception as err:  # pylint: disable=broad-except
            rec.violation('evaluate-raised-' + type(err).__name__,
                          f'{tag}: {err!r}', case)
            return
    core.recheck_previous(PROP, rec, case, res, tag)
    size = int(np.prod(cas['shape'], dtype=int))
    nds = len(cas['others'])
    if oracles.size != nds * size:
        rec.violation('oracles-shape', f'{tag}: oracles shape '
                      f'{oracles.shape}', case)
        return
    oflat = oracles.reshape(nds, size)
    exact_sample = idx % 20 == 0
    decided = 0
    expected_all = True
    undecided = False
    pattern = []
    ref_v, ref_e = cas['ref']
    for k, (o_v, o_e) in enumerate(cas['others']):
        pvals = np.asarray(res.pvalue[k], dtype=float).reshape(size)
        for i in range(size):
            args = (float(ref_v[i]), float(o_v[i]), float(ref_e[i]),
                    float(o_e[i]))
            exp, pex = expected_bin(*args, cas['alpha'], cas['ndf'])
            if (exp is not None and pex is not None and stats.HAVE_MP and (
                    exact_sample or abs(pex - cas['alpha'])
                    < 0.01 * cas['alpha'])) and pex > 0:
                exp2, pex2 = expected_bin(*args, cas['alpha'], cas['ndf'],
                                          exact=True)
                rec.count('bins_exact_mpmath')
                if exp2 is None:
                    exp = None
                elif exp2 != exp:
                    rec.count('oracle_variants_disagree')
                    exp = None
                else:
                    pex = pex2
            if exp is None:
                rec.count('bins_not_decided')
                undecided = True
                continue
            decided += 1
            pattern.append(exp)
            got = bool(oflat[k, i])
            if got != exp:
                mech = 'bin-decision'
                if any(x != x for x in args) and got:
                    mech = 'one-sided-nan-accepted'
                rec.violation(mech, f'{tag}: dataset {k} bin {i} '
                              f'(v1,v2,e1,e2)={args}: oracle says '
                              f'{"compatible" if exp else "incompatible"} '
                              f'(p={pex!r}), oracles() says {got}', case)
            expected_all = expected_all and exp
            if pex is not None and pex > 1e-290 and all(
                    math.isfinite(x) for x in args):
                rec.count('pvalues_checked')
                if not math.isclose(pvals[i], pex, rel_tol=1e-7,
                                    abs_tol=1e-300):
                    rec.violation('pvalue-value', f'{tag}: dataset {k} bin '
                                  f'{i}: pvalue {pvals[i]!r} expected '
                                  f'{pex!r}', case)
    rec.count('bins_decided', decided)
    if verdict != bool(oflat.all()):
        rec.violation('verdict-vs-oracles', f'{tag}: bool(result)={verdict} '
                      f'but all(oracles)={bool(oflat.all())}', case)
    if not undecided or not expected_all:
        rec.count('verdicts_checked')
        if verdict != expected_all:
            rec.violation('verdict', f'{tag}: verdict {verdict}, oracle '
                          f'{expected_all}', case)
    # p-value decision
    try:
        tpv = res.test_pvalue()
    except Exception as err:  # pylint: disable=broad-except
        rec.violation('test-pvalue-raised', f'{tag}: {err!r}', case)
        tpv = None
    if tpv is not None:
        if isinstance(tpv, (bool, np.bool_)):
            if cas['ndf'] is None:
                if bool(tpv) != verdict and not undecided:
                    rec.violation('test-pvalue-no-ndf', f'{tag}: '
                                  f'test_pvalue() returned {tpv!r} although '
                                  f'the verdict is {verdict} and the p-values '
                                  'were computed with the normal law', case)
            else:
                rec.violation('test-pvalue-bare-bool', f'{tag}: {tpv!r}',
                              case)
        else:
            tflat = np.concatenate([np.asarray(x).reshape(-1) for x in tpv])
            if tflat.size == nds * size:
                rec.count('test_pvalue_checked')
                for k, (o_v, o_e) in enumerate(cas['others']):
                    for i in range(size):
                        args = (float(ref_v[i]), float(o_v[i]),
                                float(ref_e[i]), float(o_e[i]))
                        exp, pex = expected_bin(*args, cas['alpha'],
                                                cas['ndf'])
                        if exp is None or pex is None or not all(
                                math.isfinite(x) for x in args):
                            continue
                        if bool(tflat[k * size + i]) != exp:
                            rec.violation(
                                'test-pvalue-disagrees', f'{tag}: dataset '
                                f'{k} bin {i}: test_pvalue '
                                f'{bool(tflat[k * size + i])}, oracle {exp} '
                                f'(p={pex!r})', case)
    # metamorphic relations
    with np.errstate(all='ignore'):
        try:
            if nds == 1 and not undecided:
                v_sw = bool(build(cas, swap=True).evaluate())
                rec.count('metamorphic_checked')
                if v_sw != verdict:
                    rec.violation('swap-asymmetric', f'{tag}: verdict '
                                  f'{verdict}, swapped {v_sw}', case)
            if not undecided:
                k_s = rng.randint(-20, 20)
                v_sc = bool(build(cas, scale=2.0 ** k_s).evaluate())
                rec.count('metamorphic_checked')
                if v_sc != verdict:
                    rec.violation('rescale-changes', f'{tag}: verdict '
                                  f'{verdict}, after *2^{k_s}: {v_sc}', case)
            # monotonicity on a finite bin
            k = rng.randrange(nds)
            i = rng.randrange(size)
            o_v, o_e = cas['others'][k]
            fin = all(math.isfinite(x) for x in (ref_v[i], o_v[i], ref_e[i],
                                                 o_e[i]))
            if fin and not cas['specials']:
                n_v = np.array(o_v, copy=True)
                n_v[i] = o_v[i] + (o_v[i] - ref_v[i])
                v_big = bool(build(cas, mod=(k, n_v, o_e)).evaluate())
                rec.count('metamorphic_checked')
                if v_big and not verdict:
                    rec.violation('monotonic-difference', f'{tag}: verdict '
                                  'False became True when the difference of '
                                  f'dataset {k} bin {i} was doubled', case)
                n_e = np.array(o_e, copy=True)
                n_e[i] = o_e[i] / 2
                v_sml = bool(build(cas, mod=(k, o_v, n_e)).evaluate())
                rec.count('metamorphic_checked')
                if v_sml and not verdict:
                    rec.violation('monotonic-error', f'{tag}: verdict False '
                                  'became True when the error of dataset '
                                  f'{k} bin {i} was halved', case)
        except Exception as err:  # pylint: disable=broad-except
            rec.violation('metamorphic-raised-' + type(err).__name__,
                          f'{tag}: {err!r}', case)
    if decided:
        rec.seen((list(cas['shape']), nds, cas['ndf'] is None,
                  int(math.log10(cas['alpha'])), cas['specials'],
                  core.h(pattern)))
    if idx % 4 == 0 and not cas['specials']:
        evaluate_again_on_other_data(cas, test, verdict, rec, case, tag)
    if idx % 701 == 0:
        rec.sample({'case': case, 'shape': list(cas['shape']),
                    'alpha': cas['alpha'], 'ndf': cas['ndf'], 'datasets': nds,
                    'specials': cas['specials'], 'verdict': verdict,
                    'bins_decided': decided})


def evaluate_again_on_other_data(cas, test, verdict, rec, case, tag):
    '''The data of the first compared dataset are changed (in place when
    they are arrays) and the same test object is evaluated once more: the
    new result must be the one of a test built afresh on the new data.'''
    import copy
    cas2 = copy.deepcopy(cas)
    ref_v, ref_e = (np.asarray(x, dtype=float) for x in cas2['ref'])
    o_v, o_e = (np.asarray(x, dtype=float) for x in cas2['others'][0])
    if verdict:
        # everything was compatible: move every bin far away
        new_v = ref_v + 60.0 * (np.abs(ref_e) + np.abs(o_e) + 1.0)
    else:
        new_v = ref_v.copy()
    if not np.all(np.isfinite(new_v)):
        return
    cas2['others'][0] = [new_v, o_e]
    with np.errstate(all='ignore'):
        try:
            # (another test object than the one whose result is kept for
            # the re-check of earlier results)
            test = build(cas)
            test.evaluate()
            dset = test.datasets[0]
            shaped = new_v.reshape(cas['shape'])
            if isinstance(dset.value, np.ndarray) and dset.value.shape:
                dset.value[...] = shaped
            else:
                dset.value = np.float64(shaped)
            again = test.evaluate()
            fresh = build(cas2).evaluate()
            same = (bool(again) == bool(fresh) and np.array_equal(
                np.asarray(again.oracles()), np.asarray(fresh.oracles())))
        except Exception as err:  # pylint: disable=broad-except
            rec.violation('second-evaluation-raised-' + type(err).__name__,
                          f'{tag}: {err!r}', case)
            return
    rec.count('second_evaluations_on_other_data')
    if not same:
        rec.violation('second-evaluation-describes-the-old-data',
                      f'{tag}: after the first compared dataset was changed, '
                      f'evaluate() on the same test object gives verdict '
                      f'{bool(again)}, a test built on the new data gives '
                      f'{bool(fresh)}', case)


def run(spec, rec):
    warnings.simplefilter('ignore')
    for idx in range(spec['lo'], spec['hi']):
        check_case(spec['seed'], idx, rec)
    rec.note('mpmath', stats.HAVE_MP)


def replay(case, rec):
    warnings.simplefilter('ignore')
    if case.get('previous') is not None:
        check_case(case['seed'], case['previous'], core.Recorder())
    check_case(case['seed'], case['idx'], rec)
