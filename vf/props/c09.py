'''C09 -- slicing keeps exactly the selected cells together with their bins;
squeezing removes exactly the length-one dimensions.

Monitor: the result of ``dataset[slices]`` / ``squeeze()`` on the real class is
compared with index arithmetic done by the oracle (``range(n)[slice]`` gives
the retained cells a..b; edges must be edges[a:b+2], centres centres[a:b+1]).
Every bin value is unique per axis, so a wrong bin identifies itself.'''
import itertools
import warnings
from collections import OrderedDict

import numpy as np

from vf import core, contracts, snapshot

PROP = 'C09'
LEVEL = 'exploration'
RULE = ('exhaustive part: every 1-d dataset length 1..6 x start, stop in '
        '{None, -n-2..n+2} x step in {None, 1} x {edges, centres}; random '
        'part: products of such slices on 2-4 dimensional datasets with mixed '
        'edges/centres, followed by squeeze; distinct by (shape, bins kinds, '
        'slices); non-trivial when at least one cell is retained')
DECIDING = ['slice_checked', 'squeeze_checked', 'invariant_evals']
ASSUMPTIONS = ['numpy basic slicing trusted for value/error',
               'selections that retain no cell: only emptiness is checked',
               'datasets without bins are outside the quantifier of squeeze']
EXHAUSTIVE_WHEN_ALL_PARTS = False


def plan(tier, seed):
    specs = core.std_plan(PROP, tier, seed, quick=4000, thorough=150000,
                          shards=core.NCPU - 1)
    specs.append({'prop': PROP, 'tier': tier, 'seed': seed, 'exhaustive': True,
                  'nmax': 6 if tier == 'quick' else 9, 'hashseed': 0})
    if tier == 'thorough':
        # the repository's own tests with the contracts switched on
        specs.append({'prop': PROP, 'tier': tier, 'seed': seed,
                      'shard': 9000, 'mode': 'repo-tests',
                      'hashseed': 0})
    return specs


def make(shape, kinds):
    from valjean.eponine.dataset import Dataset
    size = int(np.prod(shape, dtype=int))
    val = np.arange(size, dtype=float).reshape(shape) + 0.25
    err = np.arange(size, dtype=float).reshape(shape) * 0.5 + 1
    bins = OrderedDict()
    for axis, (dim, kind) in enumerate(zip(shape, kinds)):
        num = dim + 1 if kind == 'e' else dim
        bins['ax%d' % axis] = (np.arange(num, dtype=float) * 1.5
                               + 100 * (axis + 1))
    return Dataset(val, err, bins=bins, name='d', what='w')


def check_slice(dset, kinds, slices, rec, case):
    '''Slice `dset` and compare with the oracle. Returns the result or None.'''
    shape = dset.shape
    tag = f'shape={list(shape)} kinds={kinds} slices={slices}'
    sls = tuple(slice(*s) for s in slices)
    index = sls[0] if len(sls) == 1 else sls
    d_0 = snapshot.digest(dset)
    try:
        res = dset[index]
    except contracts.InvariantBroken as err:
        rec.violation('malformed-slice-result', f'{tag}: {err}', case)
        return None
    except Exception as err:  # pylint: disable=broad-except
        retained = [len(range(n)[s]) for n, s in zip(shape, sls)]
        if all(retained):
            rec.violation('slice-raised-' + type(err).__name__,
                          f'{tag}: {err!r}', case)
        else:
            # an empty selection has a result too: an empty dataset
            rec.violation('empty-selection-raised-' + type(err).__name__,
                          f'{tag}: {err!r}', case)
        return None
    if snapshot.digest(dset) != d_0:
        rec.violation('slice-modified-original', tag, case)
    cells = [range(n)[s] for n, s in zip(shape, sls)]
    if not all(len(c) for c in cells):
        rec.count('empty_selection')
        if res.value.size != 0:
            rec.violation('empty-selection-not-empty', tag, case)
        return None
    exp_val = dset.value[sls]
    exp_err = dset.error[sls]
    if not (np.array_equal(np.ma.getdata(res.value), np.ma.getdata(exp_val))
            and np.array_equal(np.ma.getdata(res.error),
                               np.ma.getdata(exp_err))):
        rec.violation('slice-wrong-cells', f'{tag}: value/error differ from '
                      'the same slice of the arrays', case)
    if np.ma.isMaskedArray(dset.value):
        # hidden cells stay hidden (and visible ones visible)
        rec.count('masked_slices_checked')
        for got, exp in ((res.value, exp_val), (res.error, exp_err)):
            if not np.array_equal(np.ma.getmaskarray(got),
                                  np.ma.getmaskarray(exp)):
                rec.violation('slice-lost-the-mask', f'{tag}: mask of the '
                              f'result {np.ma.getmaskarray(got).tolist()} '
                              'differs from the same slice of the mask',
                              case)
                break
    if list(res.bins) != list(dset.bins):
        rec.violation('slice-bins-keys', f'{tag}: keys {list(res.bins)}',
                      case)
        return res
    for axis, (key, kind, cel) in enumerate(zip(dset.bins, kinds, cells)):
        a, b = cel[0], cel[-1]
        orig = dset.bins[key]
        exp = orig[a:b + 2] if kind == 'e' else orig[a:b + 1]
        got = res.bins[key]
        if not np.array_equal(got, exp):
            neg = 'negative-start' if (slices[axis][0] is not None
                                       and slices[axis][0] < 0) else 'other'
            rec.violation(f'slice-bins-{"edges" if kind == "e" else "centres"}'
                          f'-{neg}',
                          f'{tag}: axis {axis} retained cells {a}..{b}, bins '
                          f'{got.tolist()} expected {exp.tolist()}', case)
    rec.count('slice_checked')
    return res


def check_squeeze(dset, rec, case, tag):
    d_0 = snapshot.digest(dset)
    try:
        res = dset.squeeze()
    except contracts.InvariantBroken as err:
        rec.violation('malformed-squeeze-result', f'{tag}: {err}', case)
        return
    except Exception as err:  # pylint: disable=broad-except
        rec.violation('squeeze-raised-' + type(err).__name__,
                      f'{tag}: {err!r}', case)
        return
    if snapshot.digest(dset) != d_0:
        rec.violation('squeeze-modified-original', tag, case)
    keep = [(key, dim) for key, dim in zip(dset.bins, dset.shape) if dim != 1]
    exp_shape = tuple(dim for _, dim in keep)
    if np.shape(res.value) != exp_shape or np.shape(res.error) != exp_shape:
        rec.violation('squeeze-shape', f'{tag}: shape {np.shape(res.value)} '
                      f'expected {exp_shape}', case)
    elif not (np.array_equal(np.ma.getdata(res.value),
                             np.ma.getdata(np.squeeze(dset.value)))
              and np.array_equal(np.ma.getdata(res.error),
                                 np.ma.getdata(np.squeeze(dset.error)))
              and np.array_equal(np.ma.getmaskarray(res.value),
                                 np.ma.getmaskarray(np.squeeze(dset.value)))):
        rec.violation('squeeze-values', tag, case)
    if list(res.bins) != [key for key, _ in keep]:
        rec.violation('squeeze-bins-keys', f'{tag}: {list(res.bins)} expected '
                      f'{[k for k, _ in keep]}', case)
    elif not all(np.array_equal(res.bins[key], dset.bins[key])
                 for key, _ in keep):
        rec.violation('squeeze-bins-values', tag, case)
    rec.count('squeeze_checked')


def bounds(dim):
    return [None] + list(range(-dim - 2, dim + 3))


def run_exhaustive(spec, rec):
    nmax = spec['nmax']
    for dim in range(1, nmax + 1):
        for kind in 'ec':
            dset = make((dim,), kind)
            for start, stop, step in itertools.product(
                    bounds(dim), bounds(dim), (None, 1)):
                slices = [[start, stop, step]]
                case = {'exhaustive': True, 'dim': dim, 'kind': kind,
                        'slices': slices}
                res = check_slice(dset, kind, slices, rec, case)
                rec.count('evaluations')
                if res is not None:
                    rec.seen(((dim,), kind, slices))
                    check_squeeze(res, rec, case, f'1-d {dim} {kind} {slices}')
    rec.exhaustive['1d_unit_step_slices_n<=%d' % nmax] = True
    rec.sample({'exhaustive_1d': 'dims 1..%d x %s' % (nmax, 'start,stop in '
                '{None,-n-2..n+2} x step {None,1} x {edges,centres}')})


def run_case(seed, idx, rec):
    rng = core.rng_for(seed, PROP, idx)
    ndim = rng.choice([2, 2, 3, 3, 4])
    shape = tuple(rng.randint(1, 5) for _ in range(ndim))
    kinds = ''.join(rng.choice('ec') for _ in range(ndim))
    dset = make(shape, kinds)
    case = {'seed': seed, 'idx': idx}
    if rng.random() < 0.2:
        # a dataset with hidden cells
        dset = dset.mask(np.array([rng.random() < 0.4 for _ in
                                   range(dset.value.size)]).reshape(shape))
        rec.count('masked_datasets')
    cur, curk = dset, kinds
    for _ in range(rng.randint(1, 3)):
        slices = []
        for dim in cur.shape:
            if rng.random() < 0.3:
                slices.append([None, None, None])
            else:
                for _try in range(4):
                    cand = [rng.choice(bounds(dim)), rng.choice(bounds(dim)),
                            rng.choice([None, 1])]
                    if len(range(dim)[slice(*cand)]) or rng.random() < 0.05:
                        break
                if rng.random() < 0.2:
                    # bounds that are numpy integers (results of argmax,
                    # searchsorted, ...)
                    cand = [None if c is None else np.int64(c) for c in cand]
                    rec.count('slices_with_numpy_integer_bounds')
                slices.append(cand)
        res = check_slice(cur, curk, slices, rec, case)
        if res is None:
            break
        plain = [[None if c is None else int(c) for c in sl] for sl in slices]
        rec.seen((list(cur.shape), curk, plain))
        if idx % 499 == 0:
            rec.sample({'case': case, 'shape': list(cur.shape),
                        'kinds': curk, 'slices': plain})
        check_squeeze(res, rec, case,
                      f'shape={list(res.shape)} kinds={curk}')
        if rng.random() < 0.25:
            # the bins of the dataset are replaced (other unit), then the
            # very same slice is asked again from the same object
            newk, resk = '', curk
            for key, kind, dim in zip(list(cur.bins), curk, cur.shape):
                if rng.random() < 0.4:
                    # bins of the other kind (edges <-> centres)
                    kind = 'c' if kind == 'e' else 'e'
                    num = dim + 1 if kind == 'e' else dim
                    cur.bins[key] = np.arange(num, dtype=float) * 2.5 - 3.0
                    rec.count('bins_replaced_by_the_other_kind')
                else:
                    cur.bins[key] = cur.bins[key] * 1000.0 + 7.0
                newk += kind
            rec.count('same_slice_after_the_bins_changed')
            if check_slice(cur, newk, slices, rec, case) is None:
                break
            curk = resk
        cur = res
    rec.count('evaluations')


def run(spec, rec):
    if spec.get('mode') == 'repo-tests':
        core.repo_tests_under_contracts(['Dataset'],
                                        ['tests/eponine/test_dataset.py', 'valjean/eponine/dataset.py', 'tests/eponine/tripoli4/test_scan.py'],
                                        rec, {'mode': 'repo-tests'})
        for name in DECIDING:
            rec.count(name, 0)
        return
    warnings.simplefilter('ignore')
    contracts.install(['Dataset'])
    if spec.get('exhaustive'):
        run_exhaustive(spec, rec)
    else:
        for idx in range(spec['lo'], spec['hi']):
            run_case(spec['seed'], idx, rec)
    rec.counters['invariant_evals'] = contracts.EVALS.get(
        'Dataset.well_formed', 0)


def replay(case, rec):
    warnings.simplefilter('ignore')
    contracts.install(['Dataset'])
    if case.get('exhaustive'):
        dset = make((case['dim'],), case['kind'])
        res = check_slice(dset, case['kind'], case['slices'], rec, case)
        if res is not None:
            check_squeeze(res, rec, case, 'replay')
    else:
        run_case(case['seed'], case['idx'], rec)
