'''C14 -- persisted environments survive crashes: a bad file means not-done,
not an abort.

Monitor: random environments are written with the real ``write_env``; every
file is then damaged in every possible way of the statement (truncated at
*every* byte offset, emptied, deleted; bit flips and random bytes) and read
back with the real ``read_env`` / ``Env.from_file``.  The oracle is the
statement: the task of an intact file that was written DONE comes back with
exactly the entry written (deep digest), every other task is absent, and
reading never raises.  Histories of write / crash-during-write / read check
the same against a model of what every file holds.'''
import os
import pickle
import shutil
import subprocess
import sys
import tempfile

import numpy as np

from vf import core, snapshot

PROP = 'C14'
LEVEL = 'fault_enumeration'
RULE = ('random environments of 1-6 tasks (all five statuses, with and '
        'without output directory, payloads made of nested containers, '
        'strings, numbers, numpy arrays and Dataset objects) written by '
        'write_env; faults: truncation at every byte offset of every written '
        'file (complete), empty file, deleted file, deleted directory, single '
        'bit flips and random byte strings (seeded), the file path being a '
        'directory, the output directory being a regular file, a name longer '
        'than NAME_MAX; task names with and without path separators; histories of 2-5 writes '
        'with crashes during the write (exception from inside a payload, '
        'os._exit of a child process in the middle of pickle.dump) '
        'interleaved with reads; distinct = distinct (payload kinds, '
        'statuses, fault kind, outcome class)')
DECIDING = ['files_written', 'truncation_points', 'reads_checked',
            'corrupted_reads', 'unopenable_paths', 'histories',
            'crash_during_write']
ASSUMPTIONS = ['a file that is still a readable pickle of an environment '
               'after bit flips is outside "unreadable": only "no exception" '
               'is required of it',
               'truncation models a writer killed at any point: to_file '
               'opens the destination for writing (emptying it) and then '
               'streams the pickle']
SHARD_TIMEOUT = {'quick': 600, 'thorough': 3000}
EXHAUSTIVE_WHEN_ALL_PARTS = True
FNAME = 'valjean.env'


class Bomb:
    '''Payload that misbehaves while it is being pickled.'''
    mode = None    # class attribute: 'exit' | 'oserror' | 'typeerror' | None

    def __init__(self, tag):
        self.tag = tag

    def __reduce__(self):
        if Bomb.mode == 'exit':
            os._exit(3)
        if Bomb.mode == 'oserror':
            raise OSError(28, 'No space left on device (injected)')
        if Bomb.mode == 'typeerror':
            raise TypeError('cannot pickle (injected)')
        return (Bomb, (self.tag,))

    def __eq__(self, other):
        return isinstance(other, Bomb) and other.tag == self.tag

    def __hash__(self):
        return hash(self.tag)


def plan(tier, seed):
    total = 400 if tier == 'quick' else 8000
    specs = core.std_plan(PROP, tier, seed, quick=total, thorough=total,
                          mode='damage')
    nh = 4 if tier == 'quick' else 6
    for spec in specs[-nh:]:
        spec['mode'] = 'history'
        spec['lo'], spec['hi'] = 0, (40 if tier == 'quick' else 800)
    return specs


def gen_payload(rng, depth=0):
    from valjean.eponine.dataset import Dataset
    kind = rng.choice(['int', 'str', 'float', 'list', 'dict', 'array',
                       'dataset', 'tuple', 'bytes', 'none', 'bomb'])
    if depth > 2 and kind in ('list', 'dict', 'tuple'):
        kind = 'int'
    if kind == 'int':
        return rng.choice([0, 1, -7, 2 ** 40, 255, 46])
    if kind == 'str':
        return rng.choice(['', 'x', 'result.', 'a' * rng.randint(1, 300),
                           'é.\n.'])
    if kind == 'float':
        return rng.choice([0.0, 1.5, float('inf'), 1e-300])
    if kind == 'bytes':
        return bytes(rng.randrange(256) for _ in range(rng.randint(0, 40)))
    if kind == 'none':
        return None
    if kind == 'list':
        return [gen_payload(rng, depth + 1) for _ in range(rng.randint(0, 4))]
    if kind == 'tuple':
        return tuple(gen_payload(rng, depth + 1)
                     for _ in range(rng.randint(0, 3)))
    if kind == 'dict':
        return {rng.choice(['a', 'b', 'c', 1, (1, 2)]):
                gen_payload(rng, depth + 1) for _ in range(rng.randint(0, 4))}
    if kind == 'array':
        return np.arange(rng.randint(0, 30), dtype=rng.choice(
            ['f8', 'i4', 'u1'])) * 3
    if kind == 'bomb':
        return Bomb(rng.randint(0, 99))
    num = rng.randint(1, 6)
    return Dataset(np.arange(num, dtype=float), np.ones(num) * 0.5,
                   name=rng.choice(['d', 'flux']), what='w')


def gen_env(rng, root, names=None, tag=0):
    '''Random environment; returns (Env, names).'''
    from valjean.cosette.env import Env
    from valjean.cosette.task import TaskStatus
    if names is None:
        names = [rng.choice(['t', 'task', 'run.x', 'a b', 'grp/t', 'g/h/t',
                             './t'])
                 + str(i) for i in range(rng.randint(1, 6))]
        if rng.random() < 0.15:
            # the task whose output directory is the output root itself
            names[rng.randrange(len(names))] = ''
    env = Env()
    for name in names:
        status = rng.choice([TaskStatus.DONE] * 4 + list(TaskStatus))
        entry = {'status': status}
        if rng.random() < 0.85:
            entry['output_dir'] = os.path.join(root, name)
        for key in rng.sample(['result', 'payload', 'files', 'x'],
                              rng.randint(0, 3)):
            entry[key] = gen_payload(rng)
        entry['tag'] = tag
        if status == TaskStatus.DONE and rng.random() < 0.8:
            entry['start_clock'] = 10.0 * tag
            entry['end_clock'] = 10.0 * tag + 1
        env[name] = entry
    return env, names


def safe_read(root, names, rec, where, fault):
    '''read_env must not raise.  Returns the environment or None.'''
    from valjean.cambronne.common import read_env
    try:
        return read_env(root=root, names=names, filename=FNAME, fmt='pickle')
    except Exception as err:  # pylint: disable=broad-except
        rec.violation(f'read-raised-{type(err).__name__}-on-{fault}',
                      f'read_env raised {err!r} ({fault})', where)
        return None


def compare(got, expect, names, rec, where, fault):
    '''`expect`: name -> digest of the entry that must come back.'''
    rec.count('reads_checked')
    for name in names:
        if name in expect:
            if name not in got:
                rec.violation('done-task-with-intact-file-missing',
                              f'{name} was written DONE, its file is intact, '
                              f'but it is absent after read_env ({fault})',
                              where)
            elif snapshot.digest(dict(got[name])) != expect[name]:
                rec.violation('entry-differs-from-entry-written',
                              f'{name}: entry read back differs from the '
                              f'entry written ({fault}): {got[name]!r}',
                              where)
        elif name in got:
            rec.violation(f'task-reported-done-after-{fault}',
                          f'{name} is in the environment read back '
                          f'({got[name]!r}) but nothing valid says it is '
                          f'DONE ({fault})', where)
    extra = set(got) - set(names)
    if extra:
        rec.violation('unknown-task-read', f'{extra} ({fault})', where)


def expected_of(env, names):
    from valjean.cosette.task import TaskStatus
    return {n: snapshot.digest(dict(env[n])) for n in names
            if env[n]['status'] == TaskStatus.DONE and 'output_dir' in env[n]}


def damage_case(seed, idx, tier, rec):
    # pylint: disable=too-many-locals,too-many-branches,too-many-statements
    from valjean.cambronne.common import write_env
    from valjean.cosette.env import Env
    rng = core.rng_for(seed, PROP, 'damage', idx)
    where = {'seed': seed, 'idx': idx, 'mode': 'damage', 'tier': tier}
    root = tempfile.mkdtemp(prefix='vf-c14-', dir=core.fast_tmp())
    try:
        env, names = gen_env(rng, root)
        Bomb.mode = None
        for name in names:
            os.makedirs(os.path.join(root, name), exist_ok=True)
        # write-side fault: the output directory of one task cannot be
        # written to (dangling link, regular file in its place); the other
        # tasks must be persisted all the same
        blocked = None
        plain = [n for n in names if n and '/' not in n
                 and 'output_dir' in env[n]]
        if plain and rng.random() < 0.15:
            blocked = rng.choice(plain)
            os.rmdir(os.path.join(root, blocked))
            if rng.random() < 0.5:
                os.symlink(os.path.join(root, 'nowhere', 'at', 'all'),
                           os.path.join(root, blocked))
            else:
                with open(os.path.join(root, blocked), 'wb') as fil:
                    fil.write(b'not a directory')
            rec.count('environments_with_an_unwritable_output_directory')
        try:
            write_env(env, filename=FNAME, fmt='pickle')
        except Exception as err:  # pylint: disable=broad-except
            rec.violation(f'write-raised-{type(err).__name__}-for-an-'
                          'unwritable-output-directory', f'write_env raised '
                          f'{err!r}; tasks {names}, unwritable {blocked!r}',
                          where)
        rec.count('environments')
        expect = expected_of(env, names)
        if blocked is not None:
            expect.pop(blocked, None)
            got = safe_read(root, names, rec, where, 'unwritable-directory')
            if got is not None:
                compare(got, expect, names, rec, where,
                        'unwritable-directory-of-another-task')
            if os.path.islink(os.path.join(root, blocked)):
                os.unlink(os.path.join(root, blocked))
            else:
                os.unlink(os.path.join(root, blocked))
            os.makedirs(os.path.join(root, blocked))
            names = [n for n in names if n != blocked]
        got = safe_read(root, names, rec, where, 'intact')
        if got is not None:
            compare(got, expect, names, rec, where, 'intact')
        kinds = sorted({type(v).__name__ for e in env.values()
                        for v in e.values()})
        for name in names:
            path = os.path.join(root, name, FNAME)
            if not os.path.exists(path):
                if 'output_dir' in env[name]:
                    rec.violation('file-not-written', f'{name} has an output '
                                  'directory but no file', where)
                continue
            rec.count('files_written')
            rec.count('evaluations')      # one evaluation = one damaged file
            with open(path, 'rb') as fil:
                data = fil.read()
            size = len(data)
            exp_wo = {k: v for k, v in expect.items() if k != name}
            outcomes = {}
            for off in range(size):
                with open(path, 'wb') as fil:
                    fil.write(data[:off])
                rec.count('truncation_points')
                fault = 'truncated-file'
                if off % 16 == 0:
                    got = safe_read(root, names, rec, where, fault)
                    if got is not None:
                        compare(got, exp_wo, names, rec, where, fault)
                else:
                    got = safe_read(root, [name], rec, where, fault)
                    if got is not None:
                        compare(got, {}, [name], rec, where, fault)
                try:
                    one = Env.from_file(path)
                    cls = 'None' if one is None else type(one).__name__
                except Exception as err:  # pylint: disable=broad-except
                    cls = 'raised:' + type(err).__name__
                    rec.violation(f'from_file-raised-{type(err).__name__}-on'
                                  '-truncated-file', f'Env.from_file raised '
                                  f'{err!r} at offset {off}/{size}', where)
                outcomes[cls] = outcomes.get(cls, 0) + 1
            rec.exhaustive['every byte offset of every written file'] = True
            for cls, num in outcomes.items():
                rec.count('truncated.from_file=' + cls, num)
            # deleted file, deleted directory
            os.unlink(path)
            got = safe_read(root, names, rec, where, 'deleted-file')
            if got is not None:
                compare(got, exp_wo, names, rec, where, 'deleted-file')
            # corrupted
            ncorr = 6 if tier == 'quick' else 40
            for _ in range(ncorr):
                style = rng.choice(['flip', 'flip', 'random', 'tail',
                                    'foreign', 'nostatus'])
                if style == 'flip' and size:
                    pos = rng.randrange(size)
                    bad = bytearray(data)
                    bad[pos] ^= 1 << rng.randrange(8)
                    bad = bytes(bad)
                elif style == 'random':
                    bad = bytes(rng.randrange(256)
                                for _ in range(rng.randint(1, 60)))
                elif style == 'tail':
                    bad = data + bytes(rng.randrange(256)
                                       for _ in range(rng.randint(1, 9)))
                elif style == 'nostatus':
                    # a readable environment that does not say DONE
                    from valjean.cosette.task import TaskStatus
                    bad = pickle.dumps(Env({name: rng.choice(
                        [{'payload': 1}, 5, None, 'DONE', [3],
                         {'status': None}, {'status': 'DONE'},
                         {'status': TaskStatus.PENDING, 'result': 2}])}))
                else:
                    bad = pickle.dumps(rng.choice(
                        [1, 'text', [1, 2], {'a': 1}, None, (1,), 2.5]))
                with open(path, 'wb') as fil:
                    fil.write(bad)
                rec.count('corrupted_reads')
                fault = 'corrupted-file-' + style
                got = safe_read(root, names, rec, where, fault)
                if got is not None and style in ('random', 'foreign',
                                                 'nostatus'):
                    if style != 'random' or name not in got:
                        compare(got, exp_wo, names, rec, where, fault)
                if got is not None:
                    rec.count('corrupted.' + style + (
                        '.absent' if name not in got else '.present'))
            # paths that exist but cannot be opened as a file
            os.unlink(path)
            os.mkdir(path)
            unopenable(root, names, name, path, exp_wo, rec, where,
                       'env-path-is-a-directory')
            os.rmdir(path)
            odir = os.path.dirname(path)
            if not os.listdir(odir):
                os.rmdir(odir)
                with open(odir, 'wb') as fil:
                    fil.write(data)
                unopenable(root, names, name, path, exp_wo, rec, where,
                           'output-dir-is-a-regular-file')
                os.unlink(odir)
                os.mkdir(odir)
            longname = 'n' * 300
            got = safe_read(root, names + [longname], rec, where,
                            'name-longer-than-NAME_MAX')
            if got is not None:
                compare(got, exp_wo, names + [longname], rec, where,
                        'name-longer-than-NAME_MAX')
            with open(path, 'wb') as fil:
                fil.write(data)
            rec.seen((kinds, env[name]['status'].name, sorted(outcomes)))
        if idx % 40 == 0:
            rec.sample({'names': names, 'statuses':
                        [env[n]['status'].name for n in names],
                        'payload_kinds': kinds})
    finally:
        Bomb.mode = None
        shutil.rmtree(root, ignore_errors=True)


def unopenable(root, names, name, path, exp_wo, rec, where, fault):
    '''The file of `name` exists but open() fails with something else than
    "no such file": still "not done", never an exception.'''
    from valjean.cosette.env import Env
    rec.count('unopenable_paths')
    got = safe_read(root, names, rec, where, fault)
    if got is not None:
        compare(got, exp_wo, names, rec, where, fault)
    try:
        one = Env.from_file(path)
        if one is not None:
            rec.violation(f'from_file-returned-something-on-{fault}',
                          f'Env.from_file returned {one!r}', where)
    except Exception as err:  # pylint: disable=broad-except
        rec.violation(f'from_file-raised-{type(err).__name__}-on-{fault}',
                      f'Env.from_file raised {err!r} for {name}', where)


CHILD = r'''
import sys, logging, warnings
warnings.simplefilter('ignore'); logging.disable(logging.CRITICAL)
from vf import core
from vf.props import c14
from valjean.cambronne.common import write_env
seed, idx, step, root, bomb_at = sys.argv[1:6]
hist = c14.gen_history(core.rng_for(int(seed), c14.PROP, 'history', int(idx)),
                       root)
env = hist['steps'][int(step)]['env']
c14.arm(env, bomb_at, 'exit')
write_env(env, filename=c14.FNAME, fmt='pickle')
'''


def arm(env, victim, mode):
    '''Plant an armed bomb in the entry of `victim`.'''
    env[victim]['bomb'] = Bomb(-1)
    Bomb.mode = mode


def gen_history(rng, root):
    nsteps = rng.randint(2, 5)
    names = [f't{i}' for i in range(rng.randint(1, 5))]
    steps = []
    for step in range(nsteps):
        env, _ = gen_env(rng, root, names=names, tag=step + 1)
        for name in names:      # histories: every task persists
            env[name].setdefault('output_dir', os.path.join(root, name))
            # no random bombs here: they are planted explicitly
            for key in list(env[name]):
                if contains_bomb(env[name][key]):
                    env[name][key] = 'defused'
        crash = rng.choice([None, None, 'exit', 'oserror', 'typeerror',
                            'truncate'])
        steps.append({'env': env, 'crash': crash,
                      'victim': rng.choice(names),
                      'cut': rng.random(),
                      'lose': rng.choice([None, None, rng.choice(names)])})
    return {'names': names, 'steps': steps}


def contains_bomb(obj):
    if isinstance(obj, Bomb):
        return True
    if isinstance(obj, dict):
        return any(contains_bomb(v) for v in obj.values())
    if isinstance(obj, (list, tuple)):
        return any(contains_bomb(v) for v in obj)
    return False


def history_case(seed, idx, rec):
    # pylint: disable=too-many-locals,too-many-branches,too-many-statements
    from valjean.cambronne.common import write_env
    from valjean.cosette.task import TaskStatus
    root = tempfile.mkdtemp(prefix='vf-c14h-', dir=core.fast_tmp())
    where = {'seed': seed, 'idx': idx, 'mode': 'history'}
    try:
        hist = gen_history(core.rng_for(seed, PROP, 'history', idx), root)
        names = hist['names']
        for name in names:
            os.makedirs(os.path.join(root, name), exist_ok=True)
        holds = {}          # name -> digest of the DONE entry its file holds
        rec.count('histories')
        rec.count('evaluations')
        for sidx, step in enumerate(hist['steps']):
            env, crash, victim = step['env'], step['crash'], step['victim']
            order = list(env)
            new = {n: snapshot.digest(dict(env[n])) for n in names
                   if env[n]['status'] == TaskStatus.DONE}
            fault = f'write-{crash or "ok"}'
            if crash is None:
                Bomb.mode = None
                write_env(env, filename=FNAME, fmt='pickle')
                holds = dict(new)
            elif crash == 'truncate':
                write_env(env, filename=FNAME, fmt='pickle')
                holds = dict(new)
                path = os.path.join(root, victim, FNAME)
                size = os.path.getsize(path)
                with open(path, 'r+b') as fil:
                    fil.truncate(int(step['cut'] * size))
                holds.pop(victim, None)
                rec.count('crash_during_write')
            elif crash == 'exit':
                # a child process dies in the middle of pickle.dump
                drv = os.path.join(root, 'child.py')
                with open(drv, 'w') as fil:
                    fil.write(CHILD)
                out = subprocess.run(
                    [sys.executable, drv, str(seed), str(idx), str(sidx),
                     root, victim], capture_output=True, text=True,
                    timeout=120, check=False)
                if out.returncode != 3:
                    rec.note('child_unexpected', [out.returncode,
                                                  out.stderr[-300:]])
                    rec.count('child_inconclusive')
                    return
                rec.count('crash_during_write')
                rec.count('child_crashes')
                pos = order.index(victim)
                for name in order[:pos]:
                    holds.pop(name, None)
                    if name in new:
                        holds[name] = new[name]
                holds.pop(victim, None)
            else:
                arm(env, victim, crash)
                new = {n: snapshot.digest(dict(env[n])) for n in names
                       if env[n]['status'] == TaskStatus.DONE}
                raised = None
                try:
                    write_env(env, filename=FNAME, fmt='pickle')
                except Exception as err:  # pylint: disable=broad-except
                    raised = err
                finally:
                    Bomb.mode = None
                rec.count('crash_during_write')
                rec.count('write_env_raised' if raised else
                          'write_env_swallowed')
                pos = order.index(victim)
                done_upto = order[:pos] if raised else \
                    [n for n in order if n != victim]
                for name in done_upto:
                    holds.pop(name, None)
                    if name in new:
                        holds[name] = new[name]
                holds.pop(victim, None)
            if step['lose']:
                try:
                    os.unlink(os.path.join(root, step['lose'], FNAME))
                except OSError:
                    pass
                holds.pop(step['lose'], None)
            got = safe_read(root, names, rec, dict(where, step=sidx), fault)
            if got is not None:
                compare(got, holds, names, rec, dict(where, step=sidx),
                        fault)
                rec.seen(('history', crash, sorted(got) == sorted(holds)))
    finally:
        Bomb.mode = None
        shutil.rmtree(root, ignore_errors=True)


def run(spec, rec):
    core.limit_memory(6)
    for idx in range(spec['lo'], spec['hi']):
        if spec['mode'] == 'damage':
            damage_case(spec['seed'], idx, spec['tier'], rec)
        else:
            history_case(spec['seed'], spec['shard'] * 100000 + idx, rec)
    for name in ('files_written', 'truncation_points', 'corrupted_reads',
                 'histories', 'crash_during_write'):
        rec.count(name, 0)


def replay(case, rec):
    if case['mode'] == 'damage':
        damage_case(case['seed'], case['idx'], case.get('tier', 'quick'), rec)
    else:
        history_case(case['seed'], case['idx'], rec)
