'''C17 -- browser selections return exactly the items that match.

Monitor: every filter_by / select_by / merge executed on the real Browser in
random chains is compared with a naive scan of a reference model (list of
(metadata, data object) pairs); inputs (dictionaries, source browsers, data
objects) are digested before and after.'''
import warnings

from vf import core, snapshot

PROP = 'C17'
LEVEL = 'exploration'
RULE = ('random item lists (0-12 items) over small pools of keys and hashable '
        'values (including 1 / 1.0 / True, tuples, None), data keys results / '
        'data / x, hashable or unhashable data, followed by chains of 1-5 '
        'filter_by / merge steps with value, include and exclude criteria '
        '(present and absent keys and values) and a select_by; distinct by '
        '(data key, item signature hash, chain of (operation, criteria, '
        'selected positions)); non-trivial when a selection is neither empty '
        'nor everything')
DECIDING = ['filters_checked', 'selects_checked', 'merges_checked',
            'inputs_digested']
ASSUMPTIONS = ['the reserved key "index" is not used as user metadata '
               '(documented); it may be used in queries, where it means the '
               'position of the item in the browser queried',
               'metadata values compare as dictionary keys do (1 == 1.0 == '
               'True)']

KEYS = ['menu', 'drink', 'consumer', 'n', 'flag']
VALUES = {'menu': ['1', '2', 'spam', 1, 1.0, True, None],
          'drink': ['beer', 'wine', ('a', 1), None],
          'consumer': ['Terry', 'John', 'Eric'],
          'n': [0, 1, 2, 2.0, False, -1],
          'flag': [True, False, 'True', (1,), ()]}


def plan(tier, seed):
    return core.std_plan(PROP, tier, seed, quick=6000, thorough=150000)


class Model:
    '''Reference browser: ordered (metadata, data) pairs.'''

    def __init__(self, items, data_key, glob):
        self.items = list(items)
        self.data_key = data_key
        self.glob = dict(glob)

    def full(self, pos):
        meta, data = self.items[pos]
        item = dict(meta)
        item[self.data_key] = data
        item['index'] = pos
        return item

    def scan(self, include, exclude, crit):
        '''Positions selected by a direct scan.'''
        out = []
        for pos in range(len(self.items)):
            item = self.full(pos)
            ok = True
            for key, val in crit.items():
                if key == self.data_key or key not in item:
                    ok = False
                    break
                if not (item[key] == val and hash(item[key]) == hash(val)):
                    ok = False
                    break
            if ok and all(k in item for k in include) and not any(
                    k in item for k in exclude):
                out.append(pos)
        return out


def same_items(browser, model, rec, case, where):
    '''Compare a real browser with the model.  Returns True if equal.'''
    def bad(mech, msg):
        rec.violation(mech, f'{where}: {msg}', case)
        return False
    if browser.data_key != model.data_key:
        return bad('data-key-lost', f'data_key {browser.data_key!r} expected '
                   f'{model.data_key!r}')
    if browser.globals != model.glob:
        return bad('globals', f'globals {browser.globals!r} expected '
                   f'{model.glob!r}')
    if len(browser) != len(model.items) or \
            len(browser.content) != len(model.items):
        return bad('items', f'{len(browser.content)} items, expected '
                   f'{len(model.items)}')
    for pos, (meta, data) in enumerate(model.items):
        got = browser.content[pos]
        if got.get('index') != pos:
            return bad('position', f'item {pos} has index {got.get("index")}')
        if model.data_key not in got or got[model.data_key] is not data:
            return bad('data-object', f'item {pos}: data object is not the '
                       'one that was given')
        rest = {k: v for k, v in got.items()
                if k not in ('index', model.data_key)}
        if rest != meta or any(type(rest[k]) is not type(meta[k])
                               for k in meta):
            return bad('items', f'item {pos}: metadata {rest!r} expected '
                       f'{meta!r}')
    exp_keys = {k for meta, _ in model.items for k in meta}
    if model.items:
        exp_keys.add('index')
    if set(browser.keys()) != exp_keys:
        return bad('keys', f'keys() {sorted(map(str, browser.keys()))}')
    for key in exp_keys - {'index'}:
        exp_vals = {}
        for meta, _ in model.items:
            if key in meta:
                exp_vals.setdefault(meta[key], 0)
        if set(browser.available_values(key)) != set(exp_vals):
            return bad('available-values', f'available_values({key!r})')
    return True


def fresh_str(text):
    '''An equal string that is a new object.'''
    return ''.join(list(text))


def gen_items(rng, tag):
    items = []
    num = rng.choice([0, 1, 2, 3, 4, 5, 6, 8, 12])
    data_key = rng.choice(['results', 'results', 'data', 'x'])
    unhash = rng.random() < 0.5
    for i in range(num):
        meta = {}
        for key in KEYS:
            if rng.random() < 0.6:
                meta[key] = rng.choice(VALUES[key])
        if unhash:
            data = rng.choice([{'res': [tag, i]}, [tag, i], {tag: {i}}])
        else:
            data = rng.choice([(tag, i), f'{tag}{i}', i])
        items.append((meta, data))
    return items, data_key


def gen_query(rng, model):
    crit, include, exclude = {}, [], []
    for _ in range(rng.choice([0, 1, 1, 2, 3])):
        key = rng.choice(KEYS + ['index', 'absent'])
        if key == 'index':
            crit[key] = rng.randint(0, max(1, len(model.items)))
        elif key == 'absent':
            crit[key] = 'x'
        elif model.items and rng.random() < 0.7:
            meta = rng.choice(model.items)[0]
            crit[key] = meta.get(key, rng.choice(VALUES[key]))
        else:
            crit[key] = rng.choice(VALUES[key] + ['nope'])
    for _ in range(rng.choice([0, 0, 1, 2])):
        include.append(rng.choice(KEYS + ['index', 'absent',
                                          model.data_key]))
    for _ in range(rng.choice([0, 0, 1])):
        exclude.append(rng.choice(KEYS + ['absent']))
    return crit, tuple(include), tuple(exclude)


def run_case(seed, idx, rec):
    # pylint: disable=too-many-locals,too-many-branches,too-many-statements
    from valjean.eponine.browser import (Browser, NoItemBrowserError,
                                         TooManyItemsBrowserError)
    rng = core.rng_for(seed, PROP, idx)
    case = {'seed': seed, 'idx': idx}
    items, data_key = gen_items(rng, 'a')
    glob = rng.choice([None, {}, {'g': 1}, {'g': 1, 'h': [1, 2]}])
    inputs = []
    for meta, data in items:
        dct = dict(meta)
        # an equal string that is another object (a key read from a file,
        # assembled at run time, ...), not the one given to the browser
        dct[fresh_str(data_key) if rng.random() < 0.3 else data_key] = data
        inputs.append(dct)
    d_inputs = snapshot.digest(inputs)
    d_glob = snapshot.digest(glob)
    where = f'data_key={data_key!r} items={len(items)}'
    try:
        kwargs = {} if data_key == 'results' and rng.random() < 0.5 else {
            'data_key': data_key}
        browser = Browser(inputs, global_vars=glob, **kwargs)
    except Exception as err:  # pylint: disable=broad-except
        rec.violation('constructor-raised-' + type(err).__name__,
                      f'{where}: {err!r}', case)
        return
    model = Model(items, data_key, glob or {})
    rec.count('evaluations')
    if not same_items(browser, model, rec, case, where + ' (construction)'):
        return
    chain = []
    nontrivial = False
    for step in range(rng.randint(1, 5)):
        opn = rng.choice(['filter', 'filter', 'filter', 'merge'])
        d_src = snapshot.digest(browser)
        src = browser
        if opn == 'filter':
            crit, include, exclude = gen_query(rng, model)
            sel = model.scan(include, exclude, crit)
            desc = f'filter_by(include={include}, exclude={exclude}, {crit})'
            try:
                new = browser.filter_by(include=include, exclude=exclude,
                                        **crit)
            except Exception as err:  # pylint: disable=broad-except
                mech = 'filter-raised-' + type(err).__name__
                if data_key != 'results':
                    mech = 'data-key-lost'
                rec.violation(mech, f'{where} step {step}: {desc} raised '
                              f'{err!r}', case)
                return
            new_model = Model([model.items[p] for p in sel], data_key,
                              model.glob)
            chain.append(('filter', core.h((crit, include, exclude)), sel))
            if 0 < len(sel) < len(model.items):
                nontrivial = True
            rec.count('filters_checked')
            # select_by with the same criteria
            try:
                one = browser.select_by(include=include, exclude=exclude,
                                        **crit)
                if len(sel) != 1:
                    rec.violation('select-returned', f'{where}: {desc}: '
                                  f'{len(sel)} items match but select_by '
                                  'returned one', case)
                elif one[data_key] is not model.items[sel[0]][1] or \
                        one.get('index') != sel[0]:
                    rec.violation('select-wrong-item', f'{where}: {desc}',
                                  case)
            except NoItemBrowserError:
                if sel:
                    rec.violation('select-no-item', f'{where}: {desc}: '
                                  f'{len(sel)} match', case)
            except TooManyItemsBrowserError:
                if len(sel) < 2:
                    rec.violation('select-too-many', f'{where}: {desc}: '
                                  f'{len(sel)} match', case)
            except Exception as err:  # pylint: disable=broad-except
                rec.violation('select-raised-' + type(err).__name__,
                              f'{where}: {desc}: {err!r}', case)
            rec.count('selects_checked')
        else:
            o_items, _ = gen_items(rng, 'b%d' % step)
            o_glob = rng.choice([None, {'g': 2}, {'k': 0}])
            o_inputs = []
            for meta, data in o_items:
                dct = dict(meta)
                dct[fresh_str(data_key)] = data
                o_inputs.append(dct)
            try:
                other = Browser(o_inputs, data_key=fresh_str(data_key),
                                global_vars=o_glob)
                d_other = snapshot.digest(other)
                new = browser.merge(other)
            except Exception as err:  # pylint: disable=broad-except
                rec.violation('merge-raised-' + type(err).__name__,
                              f'{where} step {step}: {err!r}', case)
                return
            if snapshot.digest(other) != d_other:
                rec.violation('merge-modified-argument', f'{where}', case)
            n_glob = dict(model.glob)
            n_glob.update(o_glob or {})
            new_model = Model(model.items + o_items, data_key, n_glob)
            chain.append(('merge', len(o_items)))
            desc = f'merge({len(o_items)} items)'
            rec.count('merges_checked')
        if snapshot.digest(src) != d_src:
            rec.violation('source-browser-modified', f'{where} step {step}: '
                          f'{desc}', case)
        if not same_items(new, new_model, rec, case,
                          f'{where} step {step}: {desc}'):
            return
        browser, model = new, new_model
    if snapshot.digest(inputs) != d_inputs or snapshot.digest(glob) != d_glob:
        rec.violation('input-modified', f'{where}: input dictionaries or '
                      'globals changed', case)
    rec.count('inputs_digested')
    if nontrivial:
        rec.seen((data_key, core.h([sorted(map(repr, m.items()))
                                    for m, _ in items]), chain))
    if idx % 997 == 0:
        rec.sample({'case': case, 'data_key': data_key,
                    'items': [repr(m) for m, _ in items][:4],
                    'chain': [list(map(repr, c)) for c in chain]})


def run(spec, rec):
    warnings.simplefilter('ignore')
    for idx in range(spec['lo'], spec['hi']):
        run_case(spec['seed'], idx, rec)


def replay(case, rec):
    warnings.simplefilter('ignore')
    run_case(case['seed'], case['idx'], rec)
