'''C07 -- chi-square verdict matches the chi-square law on the bins actually
used.

Monitor: statistic, number of degrees of freedom, p-value and verdict of every
evaluation of the real TestChi2 are compared with an independent computation
(math.fsum of the per-bin terms in Python floats, count of used bins, upper
tail Q(k/2, x/2) from scipy.special / mpmath); the statistic is re-evaluated
on a random permutation of the bins.'''
import math
import warnings

import numpy as np

from vf import core, gen
from vf.oracles import stats

PROP = 'C07'
LEVEL = 'exploration'
RULE = ('random chi-square comparisons: shapes () to 4-d, 1-3 compared '
        'datasets, arbitrary patterns of zero errors (including all zero), '
        'both values of ignore_empty, NaN / inf only with the option off '
        '(one special value, or special values on both sides of one bin), '
        'arrays in C order, Fortran order or as transposed views, '
        'differences scaled so that p-values fall on both sides of alpha; '
        'distinct by (shape, datasets, option, zero-error pattern hash, '
        'verdict, special values); non-trivial when the statistic of at '
        'least one dataset was compared')
DECIDING = ['statistics_checked', 'pvalues_checked', 'verdicts_checked',
            'permutations_checked']
ASSUMPTIONS = ['scipy.special.gammaincc (mpmath on a sample / near the level) '
               'trusted as the chi-square law',
               'statistic compared at rel. 1e-9, p-value at rel. 1e-7; '
               'decisions closer than 1e-6 (relative) to alpha not decided']
TIE = 1e-6


def plan(tier, seed):
    return core.std_plan(PROP, tier, seed, quick=5000, thorough=120000)


def gen_case(rng):
    shp = gen.shape(rng)
    size = int(np.prod(shp, dtype=int))
    ignore = rng.random() < 0.5
    alpha = rng.choice([0.01, 0.05, 10 ** rng.uniform(-8, -0.001),
                        rng.uniform(0.1, 0.99)])
    nds = rng.choice([1, 1, 2, 3])
    zero_p = rng.choice([0.0, 0.1, 0.5, 1.0]) if ignore else rng.choice(
        [0.0, 0.0, 0.0, 0.05])
    ref_v = gen.values(rng, shp).ravel()
    ref_e = gen.errors(rng, shp, zeros=0.0).ravel()
    spread = rng.choice([0.3, 1.0, 1.0, 1.5, 3.0])
    others = []
    for _ in range(nds):
        o_e = gen.errors(rng, shp, zeros=0.0).ravel()
        o_v = np.array([ref_v[i] + rng.gauss(0, spread)
                        * math.hypot(ref_e[i], o_e[i]) for i in range(size)])
        others.append([o_v, o_e])
    specials = set()
    for i in range(size):
        if rng.random() < zero_p:
            which = rng.choice(['both', 'both', 'ref', 'other'])
            if which in ('both', 'ref'):
                ref_e[i] = 0.0
            if which in ('both', 'other'):
                # independently per compared dataset: the patterns of zero
                # errors of two datasets need not be the same
                for k, (o_v, o_e) in enumerate(others):
                    if k and rng.random() < 0.5:
                        continue
                    o_e[i] = 0.0
                    if rng.random() < 0.5 and which == 'both':
                        o_v[i] = ref_v[i]
    if not ignore and rng.random() < 0.15:
        i = rng.randrange(size)
        what = rng.choice(['nan_v', 'inf_v', 'nan_e', 'inf_e'])
        specials.add(what)
        o_v, o_e = others[rng.randrange(nds)]
        if what == 'nan_v':
            o_v[i] = np.nan
        elif what == 'inf_v':
            o_v[i] = np.inf
        elif what == 'nan_e':
            o_e[i] = np.nan
        else:
            o_e[i] = np.inf
    if not ignore and rng.random() < 0.08:
        # special values on both sides of the same bin
        i = rng.randrange(size)
        o_v, o_e = others[rng.randrange(nds)]
        left, right = rng.choice(['inf_e', 'nan_e', 'inf_v']), \
            rng.choice(['inf_e', 'nan_e', 'nan_v'])
        for what, (val, err) in ((left, (ref_v, ref_e)),
                                 (right, (o_v, o_e))):
            if what == 'inf_e':
                err[i] = np.inf
            elif what == 'nan_e':
                err[i] = np.nan
            elif what == 'inf_v':
                val[i] = np.inf
            else:
                val[i] = np.nan
        specials.add(f'pair:{left}/{right}')
    dtype = 'f8'
    if not specials and rng.random() < 0.1:
        # integer-valued datasets (counts), possibly with large differences
        dtype = rng.choice(['i4', 'i8'])
        big = rng.choice([10, 1000, 10 ** 5, 3 * 10 ** 5])
        ref_v = np.array([float(rng.randint(-big, big)) for _ in range(size)])
        ref_e = np.array([float(rng.randint(0 if ignore else 1, 50))
                          for _ in range(size)])
        others = [[np.array([float(rng.randint(-big, big))
                             for _ in range(size)]),
                   np.array([float(rng.randint(0 if ignore else 1, 50))
                             for _ in range(size)])] for _ in range(nds)]
        specials.add('integer-' + dtype)
    same = None
    if rng.random() < 0.06:
        # the reference compared with itself (the same object)
        same = rng.randrange(nds)
        others[same] = [ref_v.copy(), ref_e.copy()]
        specials.add('same-object')
    # memory layout of the arrays handed to the datasets (same logical
    # content): C order, Fortran order, transposed view
    layout = [rng.choice(['C', 'C', 'F', 'T']) for _ in range(nds + 1)] \
        if len(shp) >= 2 else ['C'] * (nds + 1)
    return {'shape': shp, 'alpha': alpha, 'ignore': ignore, 'ref': [ref_v,
                                                                    ref_e],
            'others': others, 'specials': sorted(specials), 'dtype': dtype,
            'layout': layout, 'same': same}


def build(cas, perm=None):
    from valjean.eponine.dataset import Dataset
    from valjean.gavroche.stat_tests.chi2 import TestChi2
    shp = cas['shape']

    layouts = cas.get('layout') or ['C'] * (len(cas['others']) + 1)

    def relayout(arr, how):
        if how == 'F':
            return np.asfortranarray(arr)
        if how == 'T':
            # a transposed view of a C-ordered array of the reversed shape
            return np.ascontiguousarray(arr.T).T
        return arr

    def mkds(val, err, name, how):
        dtype = np.dtype(cas.get('dtype', 'f8'))
        val, err = np.array(val, dtype=dtype), np.array(err, dtype=dtype)
        if perm is not None:
            val, err = val[perm], err[perm]
        val, err = val.reshape(shp), err.reshape(shp)
        if shp == ():
            val, err = dtype.type(val), dtype.type(err)
        else:
            val, err = relayout(val, how), relayout(err, how)
        return Dataset(val, err, name=name)
    ref = mkds(*cas['ref'], 'ref', layouts[0])
    # `same`: this compared dataset is the reference *object* itself (its
    # numbers are those of the reference)
    return TestChi2(ref,
                    *[ref if k == cas.get('same') and perm is None
                      else mkds(o_v, o_e, f'd{k}', layouts[k + 1])
                      for k, (o_v, o_e) in enumerate(cas['others'])],
                    name='c', alpha=cas['alpha'], ignore_empty=cas['ignore'])


def reference(cas, k):
    '''(statistic, ndf, used flags) from the definitions.'''
    ref_v, ref_e = cas['ref']
    o_v, o_e = cas['others'][k]
    terms, used = [], []
    for v_1, v_2, e_1, e_2 in zip(ref_v.tolist(), o_v.tolist(),
                                  ref_e.tolist(), o_e.tolist()):
        use = not (cas['ignore'] and e_1 == 0 and e_2 == 0)
        used.append(use)
        if not use:
            continue
        den = e_1 * e_1 + e_2 * e_2
        num = (v_1 - v_2) ** 2
        if num != num or den != den:
            terms.append(float('nan'))
        elif den == 0:
            terms.append(float('nan') if num == 0 else float('inf'))
        elif math.isinf(den):
            terms.append(float('nan') if math.isinf(num) else 0.0)
        else:
            terms.append(num / den)
    if any(t != t for t in terms):
        stat = float('nan')
    elif any(math.isinf(t) for t in terms):
        stat = float('inf')
    else:
        stat = math.fsum(terms)
    return stat, sum(used), used


def check_case(seed, idx, rec):
    # pylint: disable=too-many-locals,too-many-branches,too-many-statements
    rng = core.rng_for(seed, PROP, idx)
    cas = gen_case(rng)
    case = {'seed': seed, 'idx': idx}
    nds = len(cas['others'])
    tag = (f'shape={list(cas["shape"])} alpha={cas["alpha"]!r} '
           f'ignore_empty={cas["ignore"]} nds={nds} '
           f'specials={cas["specials"]}')
    rec.count('evaluations')
    with np.errstate(all='ignore'):
        try:
            test = build(cas)
            res = test.evaluate()
            verdict = bool(res)
            chi2s = [float(x) for x in res.chi2]
            pvals = [float(x) for x in res.pvalue]
            ndfs = [int(x) for x in res.test.ndf]
            oracles = [bool(x) for x in np.asarray(res.oracles()).ravel()]
        except Exception as err:  # pylint: disable=broad-except
            rec.violation('evaluate-raised-' + type(err).__name__,
                          f'{tag}: {err!r}', case)
            return
    core.recheck_previous(PROP, rec, case, res, tag)
    if not len(chi2s) == len(pvals) == len(ndfs) == len(oracles) == nds:
        rec.violation('result-lengths', tag, case)
        return
    exp_all, undecided = True, False
    zero_pat = []
    for k in range(nds):
        stat, ndf, used = reference(cas, k)
        zero_pat.append(core.h(used))
        if ndfs[k] != ndf:
            rec.violation('ndf', f'{tag}: dataset {k}: ndf {ndfs[k]}, used '
                          f'bins {ndf}', case)
        if stat != stat:
            ok_stat = chi2s[k] != chi2s[k]
        elif math.isinf(stat):
            ok_stat = chi2s[k] == stat
        else:
            ok_stat = math.isclose(chi2s[k], stat, rel_tol=1e-9,
                                   abs_tol=1e-300)
        rec.count('statistics_checked')
        if not ok_stat:
            mech = 'statistic'
            if cas['ignore'] and not all(used):
                mech = 'statistic-ignore-empty'
            rec.violation(mech, f'{tag}: dataset {k}: chi2 {chi2s[k]!r}, '
                          f'expected {stat!r} over {ndf} used bins', case)
            continue
        pex = stats.chi2_sf(stat, ndf)
        if (stats.HAVE_MP and pex == pex and 0 < pex and ndf > 0
                and math.isfinite(stat) and (idx % 25 == 0 or abs(
                    pex - cas['alpha']) < 0.01 * cas['alpha'])):
            pex2 = float(stats.chi2_sf_exact(stat, ndf))
            rec.count('pvalues_exact_mpmath')
            if not math.isclose(pex, pex2, rel_tol=1e-9):
                rec.count('oracle_variants_disagree')
            pex = pex2
        if pex != pex:
            exp = False
            if pvals[k] == pvals[k] and ndf > 0:
                rec.violation('pvalue-defined-for-undefined-statistic',
                              f'{tag}: dataset {k}: chi2 {chi2s[k]!r} '
                              f'p {pvals[k]!r}', case)
        else:
            rec.count('pvalues_checked')
            if pex > 1e-290 and not math.isclose(pvals[k], pex, rel_tol=1e-7):
                rec.violation('pvalue', f'{tag}: dataset {k}: p '
                              f'{pvals[k]!r}, expected {pex!r} (chi2 '
                              f'{stat!r}, ndf {ndf})', case)
            if abs(pex - cas['alpha']) <= TIE * cas['alpha']:
                undecided = True
                rec.count('near_ties')
                continue
            exp = pex > cas['alpha']
        if oracles[k] != exp:
            mech = 'oracle'
            if stat != stat and oracles[k]:
                mech = 'undefined-statistic-passes'
            rec.violation(mech, f'{tag}: dataset {k}: oracle {oracles[k]}, '
                          f'expected {exp} (p={pex!r})', case)
        exp_all = exp_all and exp
    if verdict != all(oracles):
        rec.violation('verdict-vs-oracles', f'{tag}: {verdict} vs {oracles}',
                      case)
    if not undecided or not exp_all:
        rec.count('verdicts_checked')
        if verdict != exp_all:
            rec.violation('verdict', f'{tag}: verdict {verdict}, expected '
                          f'{exp_all}', case)
    # order independence
    size = int(np.prod(cas['shape'], dtype=int))
    if size > 1:
        perm = list(range(size))
        rng.shuffle(perm)
        with np.errstate(all='ignore'):
            try:
                res_p = build(cas, perm=np.array(perm)).evaluate()
                for k in range(nds):
                    c_1, c_2 = chi2s[k], float(res_p.chi2[k])
                    same = (c_1 != c_1 and c_2 != c_2) or c_1 == c_2 or \
                        math.isclose(c_1, c_2, rel_tol=1e-9)
                    if not same or int(res_p.test.ndf[k]) != ndfs[k]:
                        rec.violation('order-dependent', f'{tag}: dataset '
                                      f'{k}: {c_1!r} vs permuted {c_2!r}',
                                      case)
                rec.count('permutations_checked')
            except Exception as err:  # pylint: disable=broad-except
                rec.violation('permuted-raised-' + type(err).__name__,
                              f'{tag}: {err!r}', case)
    rec.seen((list(cas['shape']), nds, cas['ignore'], zero_pat, verdict,
              cas['specials']))
    if idx % 701 == 0:
        rec.sample({'case': case, 'shape': list(cas['shape']),
                    'alpha': cas['alpha'], 'ignore_empty': cas['ignore'],
                    'chi2': chi2s, 'ndf': ndfs, 'pvalue': pvals,
                    'verdict': verdict})


def run(spec, rec):
    warnings.simplefilter('ignore')
    for idx in range(spec['lo'], spec['hi']):
        check_case(spec['seed'], idx, rec)
    rec.note('mpmath', stats.HAVE_MP)


def replay(case, rec):
    warnings.simplefilter('ignore')
    if case.get('previous') is not None:
        check_case(case['seed'], case['previous'], core.Recorder())
    check_case(case['seed'], case['idx'], rec)
