'''C01 -- a task never starts before its dependencies have finished and
published their results.

Monitor: probe tasks record, at the first instruction of ``do(env, config)``,
the status of every hard and soft dependency as readable from the environment
they were handed, and compare the update each DONE dependency *returned* with
what is readable at that moment.  The real ``QueueScheduling`` runs under the
cooperative schedule controller (seeded random walk, PCT depth 2-4, bounded
depth-first enumeration of the small shapes) and in the stress layer (real
primitives, tiny switch interval, delays between critical sections,
``sys.monitoring`` yield injection).'''
from vf import core
from vf.sched import controller as C
from vf.sched import harness as H

PROP = 'C01'
LEVEL = 'exploration'
RULE = ('random DAGs of 2-8 (thorough 2-25) probe tasks with independent '
        'hard/soft edge densities, every outcome kind of the statement, '
        'workers in {1,2,3,4,8,16}; each (graph, outcomes) is executed under '
        'several controlled schedules (random walk, PCT depth 2-4), the small '
        'shapes under all schedules with <= 2 preemptions, and a share in the '
        'stress layer; distinct = distinct controlled schedule traces '
        '(sequence of (thread, scheduling point)) of runs in which at least '
        'one dependency was read at a task start, plus distinct environment '
        'histories in the stress layer')
DECIDING = ['controlled_runs', 'start_events', 'dependency_reads',
            'payload_reads', 'stress_runs']
ASSUMPTIONS = ['the controller switches threads only at synchronisation '
               'operations and probe yield points; unsynchronised reads are '
               'left to the stress layer',
               'schedules are sampled (exhaustive only for the 2-3 task '
               'shapes with at most 2 preemptions)',
               'only the update returned by a DONE dependency is required to '
               'be readable; clocks are C04\'s concern']
SHARD_TIMEOUT = {'quick': 600, 'thorough': 3000}
KINDS = H.FAIL_KINDS + H.MALFORMED_KINDS
WORKERS = [1, 2, 2, 3, 4, 8, 16]

SHAPES = {
    'chain2': {'tasks': ['a', 'b'], 'hard': {'b': ['a']}, 'soft': {}},
    'softchain2': {'tasks': ['a', 'b'], 'hard': {}, 'soft': {'b': ['a']}},
    'indep+dep': {'tasks': ['a', 'x', 'b'], 'hard': {'b': ['a']}, 'soft': {}},
    'fork': {'tasks': ['a', 'b', 'c'], 'hard': {'b': ['a'], 'c': ['a']},
             'soft': {}},
    'join': {'tasks': ['a', 'b', 'c'], 'hard': {'c': ['a']},
             'soft': {'c': ['b']}},
    'chain3': {'tasks': ['a', 'b', 'c'], 'hard': {'b': ['a']},
               'soft': {'c': ['b']}},
}


def plan(tier, seed):
    total = 4000 if tier == 'quick' else 60000
    specs = core.std_plan(PROP, tier, seed, quick=total, thorough=total,
                          mode='random')
    nstress = 4 if tier == 'quick' else 8
    # the stress shards replace the last random shards
    for spec in specs[-nstress:]:
        spec['mode'] = 'stress'
        spec['lo'], spec['hi'] = 0, (10 if tier == 'quick' else 120)
    if tier == 'thorough':
        for i, shape in enumerate(sorted(SHAPES)):
            specs.append({'prop': PROP, 'tier': tier, 'seed': seed,
                          'shard': 100 + i, 'mode': 'dfs', 'shape': shape,
                          'hashseed': 1 + i})
    else:
        specs.append({'prop': PROP, 'tier': tier, 'seed': seed, 'shard': 100,
                      'mode': 'dfs', 'shape': 'chain2', 'max_runs': 1500,
                      'hashseed': 1})
    return specs


def gen_case(rng, tier):
    big = tier == 'thorough'
    ntasks = rng.choice([2, 3, 3, 4, 5, 6, 8] + ([12, 18, 25] if big else []))
    case = H.gen_dag(rng, ntasks, p_hard=rng.choice([0.15, 0.3, 0.5]),
                     p_soft=rng.choice([0.0, 0.15, 0.3]))
    if rng.random() < 0.2:
        case = H.nest(rng, case)
    case['outcomes'] = H.gen_outcomes(rng, case, KINDS)
    case['workers'] = rng.choice(WORKERS)
    return case


def strategy_for(rng, est_steps, idx):
    pick = idx % 4
    if pick == 0:
        return C.RandomWalk(rng)
    return C.PCT(rng, depth=pick + 1, est_steps=est_steps)


def account(res, rec, case, extra):
    '''Common bookkeeping of one run; returns False when the run is not
    usable for this property.'''
    rec.count('evaluations')
    if res.outcome == 'lost':
        rec.count('engine_lost_control')
        rec.note('lost', res.lost)
        return False
    mon = res.mon
    for key, msg in res.start_violations:
        rec.violation(key, msg, dict(case=case, **extra))
    if res.outcome != 'returned':
        rec.count('runs_not_returned(C03)')
    return True


def run_random(spec, rec):
    tier, seed = spec['tier'], spec['seed']
    for idx in range(spec['lo'], spec['hi']):
        rng = core.rng_for(seed, PROP, 'case', idx)
        case = gen_case(rng, tier)
        nsched = 4 if tier == 'quick' else 8
        est = 40
        for sidx in range(nsched):
            srng = core.rng_for(seed, PROP, 'sched', idx, sidx)
            strat = strategy_for(srng, est, sidx)
            mon = H.Monitor()
            fine = None
            if sidx == nsched - 1:
                # one schedule per case also switches between source lines
                fine = (core.rng_for(seed, PROP, 'fine', idx), 0.08)
                rec.count('fine_grained_runs')
            then = None
            if sidx == 1 and not case.get('groups'):
                # the same backend object and the same task objects are then
                # scheduled again with other dependencies between them
                rng2 = core.rng_for(seed, PROP, 'then', idx)
                then = H.gen_dag(rng2, len(case['tasks']),
                                 p_hard=rng2.choice([0.2, 0.5]),
                                 p_soft=rng2.choice([0.0, 0.3]))
                then['outcomes'] = H.gen_outcomes(rng2, then, KINDS)
                then['workers'] = case['workers']
                rec.count('backend_reused_for_another_graph')
            res = H.run_controlled(dict(case), strat, mon=mon, fine=fine,
                                   then=then)
            if fine is None and then is None:
                est = max(10, res.steps)
            extra = {'engine': 'controlled', 'choices': res.choices,
                     'hashseed': spec.get('hashseed', 0)}
            if then is not None:
                extra['then'] = then
            if not account(res, rec, case, extra):
                continue
            rec.count('controlled_runs')
            rec.count('start_events', mon.starts)
            rec.count('dependency_reads', mon.reads)
            rec.count('payload_reads', mon.payload_reads)
            rec.count('scheduling_points', res.steps)
            rec.maxi('max_scheduling_points', res.steps)
            for key, val in res.counters.items():
                rec.count('hook.' + key, val)
            if mon.reads:
                rec.seen(res.trace_hash)
        if idx == spec['lo']:
            rec.sample({'case': case, 'last_schedule_steps': res.steps,
                        'statuses': res.statuses})
    # the stress counters are reported by the stress shards
    rec.count('stress_runs', 0)


def run_stress(spec, rec):
    tier, seed = spec['tier'], spec['seed']
    for idx in range(spec['lo'], spec['hi']):
        rng = core.rng_for(seed, PROP, 'stress', spec['shard'], idx)
        case = gen_case(rng, 'quick')
        case['workers'] = rng.choice([2, 3, 4, 8, 16])
        mon = H.Monitor()
        inject = rng.choice([0.0, 0.05, 0.2])
        res = H.run_stress(case, rng, mon=mon, inject=inject)
        extra = {'engine': 'stress', 'stress_seed':
                 [seed, spec['shard'], idx], 'hashseed': spec.get(
                     'hashseed', 0)}
        if not account(res, rec, case, extra):
            continue
        rec.count('stress_runs')
        rec.count('start_events', mon.starts)
        rec.count('dependency_reads', mon.reads)
        rec.count('payload_reads', mon.payload_reads)
        rec.count('hook.inject_lines', res.counters['inject_lines'])
        rec.count('hook.inject_yields', res.counters['inject_yields'])
        if mon.reads:
            rec.seen(('stress', res.hist_hash))
    for name in ('controlled_runs',):
        rec.count(name, 0)


def run_dfs(spec, rec):
    shape = spec['shape']
    base = SHAPES[shape]
    complete = True
    for workers in (1, 2):
        for outcomes in ({}, {'a': 'failed'}):
            case = dict(base, workers=workers,
                        outcomes={n: outcomes.get(n, 'ok')
                                  for n in base['tasks']})
            count = [0]

            def once(strat, case=case):
                mon = H.Monitor()
                res = H.run_controlled(case, strat, mon=mon)
                count[0] += 1
                extra = {'engine': 'controlled', 'choices': res.choices,
                         'hashseed': spec.get('hashseed', 0)}
                if not account(res, rec, case, extra):
                    return
                rec.count('controlled_runs')
                rec.count('dfs_runs')
                rec.count('start_events', mon.starts)
                rec.count('dependency_reads', mon.reads)
                rec.count('payload_reads', mon.payload_reads)
                if mon.reads:
                    rec.seen(res.trace_hash)
            runs, done = C.explore_dfs(
                once, max_preempt=2,
                max_runs=spec.get('max_runs', 40000))
            complete = complete and done
            rec.note(f'dfs.{shape}.w{workers}.{"fail" if outcomes else "ok"}',
                     {'runs': runs, 'complete': done})
    rec.exhaustive[f'schedules<=2preemptions:{shape}'] = complete
    rec.count('stress_runs', 0)


def run(spec, rec):
    {'random': run_random, 'stress': run_stress, 'dfs': run_dfs}[
        spec['mode']](spec, rec)


def replay(case, rec):
    rec.count('evaluations')
    if case.get('engine') == 'stress':
        rng = core.rng_for(*case['stress_seed'])
        for _ in range(30):
            mon = H.Monitor()
            res = H.run_stress(case['case'], rng, mon=mon, inject=0.1)
            for key, msg in res.start_violations:
                rec.violation(key, msg, case)
        return
    mon = H.Monitor()
    res = H.run_controlled(case['case'], C.Replay(case['choices']), mon=mon,
                           then=case.get('then'))
    for key, msg in res.start_violations:
        rec.violation(key, msg, case)
    rec.note('replayed', {'outcome': res.outcome, 'statuses': res.statuses,
                          'steps': res.steps})
