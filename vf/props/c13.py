'''C13 -- looking at a test result never changes its verdict or its inputs.

Monitor: a deep canonical digest (vf.snapshot) of the result -- which reaches
the verdict, the recorded statistics, the test and the datasets it was computed
from -- is taken before and after every operation of a random sequence of
read-only operations; a second evaluation of the same test must have the same
digest.'''
import copy
import pickle

from vf import core, resgen, snapshot

PROP = 'C13'
LEVEL = 'exploration'
RULE = ('results of every kind (equal, approx-equal, Student, Bonferroni, '
        'Holm-Bonferroni, metadata, statistics of tasks / tests / tests by '
        'labels, failed evaluation) over shapes () to 3-d, 1-3 datasets and '
        'random failing patterns; on each a random sequence of <= 12 '
        'read-only operations (bool, repr, oracles, counts and proportions, '
        'per-key views, table / full-table / plot / full representation at '
        'every verbosity, Rst.format_result, fingerprint, pickle round trip, '
        'copy, deepcopy, re-evaluation); distinct = distinct (kind, shape, '
        'verdict, sequence of operations that ran to completion)')
DECIDING = ['results', 'operations_run', 'digests_compared',
            'reevaluations_compared']
ASSUMPTIONS = ['"unchanged" is decided by a deep digest of the object graph '
               'reachable from the result (attributes, mappings with their '
               'key order and number, arrays with dtype/shape/bytes); lazily '
               'created caches that change it would be reported',
               'an operation that raises is not a change (rendering failures '
               'are C12\'s concern); the digest is still compared afterwards']
SHARD_TIMEOUT = {'quick': 900, 'thorough': 3000}


def plan(tier, seed):
    return core.std_plan(PROP, tier, seed, quick=16000, thorough=200000)


def build_ops():
    from valjean.javert.representation import (
        Representation, TableRepresenter, FullTableRepresenter,
        PlotRepresenter, FullPlotRepresenter, FullRepresenter)
    from valjean.javert.verbosity import Verbosity
    from valjean.javert.rst import Rst
    from valjean.fingerprint import fingerprint
    ops = {
        'bool': bool,
        'repr': repr,
        'str': str,
        'oracles': lambda r: r.oracles() if hasattr(r, 'oracles') else None,
        'counts': lambda r: ((r.nb_rejected, r.rejected_proportion)
                             if hasattr(r, 'nb_rejected') else None),
        'test_pvalue': lambda r: (r.test_pvalue()
                                  if hasattr(r, 'test_pvalue') else None),
        'per_key': lambda r: ((r.per_key(), r.only_failed_comparisons())
                              if hasattr(r, 'per_key') else None),
        'nb_missing': lambda r: (r.nb_missing_labels()
                                 if hasattr(r, 'nb_missing_labels')
                                 else None),
        'fingerprint': lambda r: fingerprint(r.test),
        'pickle': lambda r: pickle.loads(pickle.dumps(r)),
        'deepcopy': copy.deepcopy,
        'copy': copy.copy,
        'classify_read': lambda r: ([len(v) for v in (
            r.classify.values() if hasattr(r.classify, 'values')
            else r.classify)] if hasattr(r, 'classify') else None),
    }
    reps = {'table': TableRepresenter, 'fulltable': FullTableRepresenter,
            'plot': PlotRepresenter, 'fullplot': FullPlotRepresenter,
            'full': FullRepresenter}
    for verb in Verbosity:
        for rname, rcls in reps.items():
            ops[f'{rname}/{verb.name}'] = (
                lambda r, rcls=rcls, verb=verb:
                Representation(rcls(), verb)(r))
        ops[f'rstfmt/{verb.name}'] = (
            lambda r, verb=verb: Rst(Representation(
                FullTableRepresenter(), verb)).format_result(r))
        ops[f'rstfmt_full/{verb.name}'] = (
            lambda r, verb=verb: Rst(Representation(
                FullRepresenter(), verb)).format_result(r))
    return ops


_OPS = {}


def run_case(seed, idx, rec):
    # pylint: disable=too-many-locals
    if not _OPS:
        _OPS.update(build_ops())
    names = sorted(_OPS)
    rng = core.rng_for(seed, PROP, idx)
    gen = resgen.gen_result(rng, kind='external' if rng.random() < 0.08
                            else None, exotic=True)
    if gen.get('decreasing_bins'):
        rec.count('results_over_decreasing_bins')
    if gen.get('no_pvalue'):
        rec.count('student_results_without_pvalues')
    res, kind = gen['result'], gen['kind']
    case = {'seed': seed, 'idx': idx}
    rec.count('results')
    rec.count('evaluations')
    verdict0 = bool(res)
    dig0 = snapshot.digest(res)
    # the first bool() itself must not change anything
    if snapshot.digest(res) != dig0 or bool(res) != verdict0:
        rec.violation(f'changed-by-bool-{kind}', 'digest unstable', case)
    ops = [rng.choice(names) for _ in range(rng.randint(1, 12))]
    done = []
    ran = []
    for op in ops:
        short = op.split('/')[0]
        try:
            _OPS[op](res)
            rec.count('operations_run')
            ran.append(op)
        except Exception as err:  # pylint: disable=broad-except
            rec.count('operations_raised')
            rec.count(f'raised.{kind}.{short}.{type(err).__name__}')
        done.append(op)
        rec.count('digests_compared')
        dig1 = snapshot.digest(res)
        verdict1 = bool(res)
        if dig1 != dig0 or verdict1 != verdict0:
            what = ('verdict' if verdict1 != verdict0 else 'content')
            rec.violation(f'{what}-changed-{kind}-by-{short}',
                          f'{kind} result {gen.get("style", gen["shape"])}: '
                          f'{what} changed by {op} after {done[:-1]} '
                          f'(verdict {verdict0} -> {verdict1})', case)
            dig0, verdict0 = dig1, verdict1
    if ran:
        rec.seen((kind, tuple(gen['shape']), verdict0, tuple(ran)))
    # evaluating again gives the same thing
    if kind not in ('failed',):
        try:
            again = res.test.evaluate()
        except Exception as err:  # pylint: disable=broad-except
            rec.violation(f'reevaluation-raised-{kind}', repr(err), case)
            return
        rec.count('reevaluations_compared')
        if gen.get('no_pvalue'):
            # the result under observation was built without p-values; the
            # evaluation computes them: compare everything else
            again.pvalue = None
        if snapshot.digest(again) != snapshot.digest(res) \
                or bool(again) != bool(res):
            rec.violation(f'reevaluation-differs-{kind}',
                          f'second evaluate() of the same {kind} test gives '
                          f'another result (verdicts {bool(res)} / '
                          f'{bool(again)}) after {done}', case)
    if idx % 400 == 0:
        rec.sample({'kind': kind, 'shape': list(gen['shape']),
                    'verdict': verdict0, 'operations': ops})


def digest_of_case(seed, idx):
    '''Digest of the freshly generated and evaluated result of case `idx`
    (None for the kinds whose content holds process-dependent text).'''
    rng = core.rng_for(seed, PROP, idx)
    gen = resgen.gen_result(rng, kind='external' if rng.random() < 0.08
                            else None, exotic=True)
    if gen['kind'] == 'external':
        return None, gen['kind']
    return snapshot.digest(gen['result']), gen['kind']


def run(spec, rec):
    # the first cases of the shard are evaluated once more at its end, from
    # new objects: the results must be what they were in the young process
    first = list(range(spec['lo'], min(spec['hi'], spec['lo'] + 25)))
    early = {idx: digest_of_case(spec['seed'], idx) for idx in first}
    for idx in range(spec['lo'], spec['hi']):
        run_case(spec['seed'], idx, rec)
    for idx in first:
        late = digest_of_case(spec['seed'], idx)
        if early[idx][0] is None:
            continue
        rec.count('evaluations_repeated_at_the_end_of_the_process')
        if late != early[idx]:
            rec.violation(f'evaluation-depends-on-process-history-'
                          f'{early[idx][1]}', f'case {idx} ({early[idx][1]}) '
                          'evaluated from fresh objects at the end of the '
                          'shard differs from the same case evaluated at its '
                          'beginning', {'seed': spec['seed'], 'idx': idx,
                                        'history': [spec['lo'], spec['hi']]})


def replay(case, rec):
    if case.get('history'):
        run({'seed': case['seed'], 'lo': case['history'][0],
             'hi': case['history'][1]}, rec)
        return
    run_case(case['seed'], case['idx'], rec)
