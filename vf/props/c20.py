'''C20 -- a written report contains every section and every result exactly once.

Monitor: random report trees are formatted and written with the real
``Rst.format_report(...).write(path)``; the directory is then read back: every
page is parsed with docutils and compared with the expected page set derived
from the tree (one page per chain of titles, the root page ``index.rst``), the
unique text marker of every section and the anchor of every result are looked
for, toctree entries and images are resolved on disk.  For titles that cannot
be used as file names the call must raise and a snapshot of the target
directory taken before must be unchanged.'''
import os
import shutil
import tempfile

from collections import OrderedDict

import numpy as np

from vf import core
from vf.oracles import rstback

PROP = 'C20'
LEVEL = 'exploration'
RULE = ('random report trees of depth <= 5 levels (a sixth level must be '
        'refused), 0-4 sub-sections per section, titles from a pool holding '
        'plain names, the reserved names index / conf / conf.py / figures / '
        '.static / .templates, repeated titles among siblings and between '
        'parent and child, and unusable titles (empty, ., .., a/b, NUL); 0-3 '
        'uniquely named results per section, given to the constructor or '
        'appended to sections created empty; Table representer at '
        'FULL_DETAILS (every 40th case, thorough every 8th: the Full '
        'representer with plots, figures written sequentially or by 1-8 '
        'worker subprocesses); '
        'distinct = distinct (tree shape, reserved/unusable title positions)')
DECIDING = ['reports_written', 'pages_parsed', 'sections_checked',
            'results_checked', 'toctree_entries_resolved',
            'rejections_checked']
ASSUMPTIONS = ['titles are free of reStructuredText markup and wide '
               'characters; results have distinct fingerprints',
               'toctree entries are resolved as Sphinx does: relative to the '
               'directory of the page that holds them, or to the report root '
               'when they start with a slash',
               'repeated sibling titles, which the implementation merges '
               'into one page, are flagged only if a section text or a '
               'result is lost or duplicated']
SHARD_TIMEOUT = {'quick': 900, 'thorough': 3000}
PLAIN = ['Alpha', 'Beta', 'Gamma', 'Spectrum E', 'k-eff', 'Série', 'v1.2',
         'Results', 'A', 'B', 'v1', 'v1.0', 'k.eff', 'k.inf', 'Release 1.0',
         'Release 1.5', 'index.x', 'A.rst']
RESERVED = ['index', 'conf', 'conf.py', 'figures', '.static', '.templates',
            'index.rst', 'Contents']
UNUSABLE = ['', '.', '..', 'a/b', 'nul\0x', '/abs']


def plan(tier, seed):
    return core.std_plan(PROP, tier, seed, quick=1600, thorough=40000)


class Counter:
    def __init__(self):
        self.num = 0

    def next(self):
        self.num += 1
        return self.num


def make_result(uid, fail):
    from valjean.eponine.dataset import Dataset
    from valjean.gavroche.test import TestEqual
    val = np.arange(3, dtype=float) + uid * 10.0
    ds1 = Dataset(val, np.ones(3) * 0.5, name=f'ref{uid}',
                  bins=OrderedDict([('e', np.arange(4.0))]))
    val2 = val.copy()
    if fail:
        val2[1] += 1
    ds2 = Dataset(val2, np.ones(3) * 0.5, name=f'calc{uid}',
                  bins=OrderedDict([('e', np.arange(4.0))]))
    return TestEqual(ds1, ds2, name=f'test_{uid}',
                     description=f'Description RES{uid}.').evaluate()


def gen_tree(rng, cnt, depth, max_depth, special):
    '''Nested dictionary describing a section.'''
    nsub = 0 if depth >= max_depth else rng.choice([0, 1, 2, 2, 3, 4])
    if depth == 0:
        nsub = max(nsub, 1)
    subs, used = [], []
    for _ in range(nsub):
        rnd = rng.random()
        if special and rnd < special.get('unusable', 0):
            title = rng.choice(UNUSABLE)
        elif rnd < 0.25:
            title = rng.choice(RESERVED)
        elif rnd < 0.35 and used:
            title = rng.choice(used)            # repeated sibling
        elif rnd < 0.42 and depth:
            title = None                        # same as the parent (below)
        else:
            title = rng.choice(PLAIN)
        sub = gen_tree(rng, cnt, depth + 1, max_depth, special)
        sub['title'] = title
        used.append(title)
        subs.append(sub)
    uid = cnt.next()
    return {'uid': uid, 'title': 'Root', 'subs': subs,
            'results': [(cnt.next(), rng.random() < 0.4)
                        for _ in range(rng.choice([0, 0, 1, 2, 3]))]}


def fix_titles(node, parent_title=None):
    if node['title'] is None:
        node['title'] = parent_title
    for sub in node['subs']:
        fix_titles(sub, node['title'])


def build_report(node, how='ctor'):
    '''`how`: 'ctor' passes the content to the constructor; 'append' creates
    every section without content and fills it afterwards.'''
    from valjean.javert.test_report import TestReport
    if how == 'append':
        section = TestReport(title=node['title'],
                             text=f'Marker SEC{node["uid"]}.')
        subs = [build_report(sub, how) for sub in node['subs']]
        for uid, fail in node['results']:
            section.content.append(make_result(uid, fail))
        for sub in subs:
            section.content.append(sub)
        return section
    content = []
    # results and sub-sections interleaved deterministically
    for uid, fail in node['results']:
        content.append(make_result(uid, fail))
    for sub in node['subs']:
        content.append(build_report(sub, how))
    return TestReport(title=node['title'], text=f'Marker SEC{node["uid"]}.',
                      content=content)


def walk(node, chain=()):
    yield chain, node
    for sub in node['subs']:
        yield from walk(sub, chain + (sub['title'],))


def depth_of(node):
    return 1 + max([depth_of(s) for s in node['subs']], default=0)


def listing(path):
    out = {}
    for base, _, files in os.walk(path):
        for name in files:
            full = os.path.join(base, name)
            try:
                with open(full, 'rb') as fil:
                    out[os.path.relpath(full, path)] = core.h(fil.read())
            except OSError:
                out[os.path.relpath(full, path)] = None
    return out


def page_path(chain):
    if not chain:
        return 'index.rst'
    return os.path.join(*chain) + '.rst'


def collisions(tree):
    '''Which page collisions the titles of `tree` really have: 'same-page'
    (two different sections, the root included, with the same page path) and
    'page-is-directory' (the page, or another file of the report, of one
    section is the directory of the sub-sections of another one).'''
    chains = {chain for chain, _ in walk(tree)}
    pages = {}
    for chain in chains:
        pages.setdefault(page_path(chain), set()).add(chain)
    out = set()
    if any(len(v) > 1 for v in pages.values()):
        out.add('same-page')
    files = set(pages) | {'conf.py', os.path.join('.static', 'valjean.css')}
    for chain in chains:
        for upto in range(1, len(chain)):
            if os.path.join(*chain[:upto]) in files:
                out.add('page-is-directory')
    return out


def check_written(tree, target, rec, case, with_plots):
    # pylint: disable=too-many-locals,too-many-branches,too-many-statements
    from valjean.fingerprint import fingerprint
    pages = {}
    for base, _, files in os.walk(target):
        for name in files:
            if name.endswith('.rst'):
                full = os.path.join(base, name)
                with open(full, encoding='utf-8') as fil:
                    pages[os.path.relpath(full, target)] = fil.read()
    parsed = {}
    for rel, text in pages.items():
        doc, warn = rstback.parse(text)
        rec.count('pages_parsed')
        if doc is None or warn.strip():
            rec.violation('page-is-not-valid-rst', f'{rel}: {warn[:300]}',
                          case)
        parsed[rel] = doc
    # expected pages: one per distinct chain
    chains = {}
    for chain, node in walk(tree):
        chains.setdefault(chain, []).append(node)
    expected = {page_path(chain) for chain in chains}
    missing = expected - set(pages)
    if missing:
        rec.violation('section-page-missing', f'no page {sorted(missing)}; '
                      f'pages written: {sorted(pages)}', case)
    extra = set(pages) - expected
    if extra:
        rec.violation('unexpected-page', f'{sorted(extra)}', case)
    alltext = {rel: text for rel, text in pages.items()}
    for chain, nodes in chains.items():
        rel = page_path(chain)
        text = pages.get(rel, '')
        doc = parsed.get(rel)
        for node in nodes:
            rec.count('sections_checked')
            marker = f'Marker SEC{node["uid"]}.'
            where = [r for r, t in alltext.items() if marker in t]
            count = sum(t.count(marker) for t in alltext.values())
            if rel in pages and marker not in text:
                key = ('root-page-overwritten' if not chain
                       else 'section-text-missing-from-its-page')
                rec.violation(key, f'section {chain} (title '
                              f'{node["title"]!r}): its text is not in '
                              f'{rel}; found in {where}', case)
            elif count != 1:
                rec.violation('section-text-duplicated', f'{chain}: marker '
                              f'appears {count} times in {where}', case)
            if doc is not None and node['title'] not in \
                    rstback.titles(doc):
                rec.violation('section-title-missing', f'{chain}: titles of '
                              f'{rel}: {rstback.titles(doc)}', case)
            for uid, _ in node['results']:
                rec.count('results_checked')
                desc = f'Description RES{uid}.'
                hits = [r for r, t in alltext.items() if desc in t]
                num = sum(t.count(desc) for t in alltext.values())
                if num != 1 or hits != [rel]:
                    rec.violation('result-not-exactly-once-on-its-page',
                                  f'result {uid} of section {chain}: '
                                  f'appears {num} times, in {hits}, '
                                  f'expected once in {rel}', case)
        # children listed in the toctree and resolvable
        if doc is not None:
            entries = rstback.toctree_entries(doc)
            base = os.path.dirname(rel)
            resolved = set()
            for ent in entries:
                rec.count('toctree_entries_resolved')
                if ent.startswith('/'):
                    tgt = os.path.normpath(ent[1:] + '.rst')
                else:
                    tgt = os.path.normpath(os.path.join(base, ent + '.rst'))
                resolved.add(tgt)
                if tgt not in pages:
                    rec.violation('toctree-entry-without-page',
                                  f'{rel}: entry {ent!r} -> {tgt} was not '
                                  'written', case)
            for sub in {s['title'] for n in nodes for s in n['subs']}:
                child = page_path(chain + (sub,))
                if child not in resolved:
                    rec.violation('sub-section-not-in-toctree',
                                  f'{rel}: {child} not listed '
                                  f'({sorted(resolved)})', case)
            for uri in rstback.images(doc):
                rec.count('images_resolved')
                tgt = uri[1:] if uri.startswith('/') else \
                    os.path.join(base, uri)
                if not os.path.exists(os.path.join(target, tgt)):
                    rec.violation('image-without-file', f'{rel}: {uri}',
                                  case)
    # anchors: one per result, globally
    anchors = {}
    for rel, doc in parsed.items():
        if doc is None:
            continue
        for name in rstback.anchors(doc):
            anchors.setdefault(name, []).append(rel)
    for name, where in anchors.items():
        if name.startswith('anchor_') and len(where) != 1:
            rec.violation('result-anchor-duplicated', f'{name} in {where}',
                          case)
    del fingerprint, with_plots


def run_case(seed, idx, tier, rec):
    # pylint: disable=too-many-locals,too-many-branches
    from valjean.javert.representation import (Representation,
                                               TableRepresenter,
                                               FullRepresenter)
    from valjean.javert.verbosity import Verbosity
    from valjean.javert.rst import Rst
    rng = core.rng_for(seed, PROP, idx)
    case = {'seed': seed, 'idx': idx, 'tier': tier}
    style = rng.choice(['ok', 'ok', 'ok', 'unusable', 'too_deep'])
    max_depth = rng.choice([1, 2, 3, 4]) if style != 'too_deep' else 5
    special = {'unusable': 0.2} if style == 'unusable' else None
    cnt = Counter()
    tree = gen_tree(rng, cnt, 0, max_depth, special)
    fix_titles(tree)
    if style == 'too_deep':
        # make sure a chain of six levels exists
        node = tree
        for _ in range(5):
            if not node['subs']:
                node['subs'].append({'uid': cnt.next(), 'title':
                                     rng.choice(PLAIN), 'subs': [],
                                     'results': []})
            node = node['subs'][0]
    unusable = [c for c, n in walk(tree) if c and n['title'] in UNUSABLE]
    too_deep = depth_of(tree) > 5
    with_plots = (tier == 'thorough' and idx % 8 == 0) or idx % 40 == 0
    # the same Rst object formats another report before this one is written
    sequence = idx % 4 == 0
    rep = FullRepresenter() if with_plots else TableRepresenter()
    how = rng.choice(['ctor', 'append'])
    rec.count('trees_built_by_' + how)
    # figures written by worker subprocesses (more or fewer than figures)
    n_workers = rng.choice([None, 1, 2, 4, 8]) if with_plots else None
    if n_workers:
        rec.count('reports_with_figures_written_by_subprocesses')
    rec.count('evaluations')
    work = tempfile.mkdtemp(prefix='vf-c20-', dir=core.fast_tmp())
    target = os.path.join(work, 'report')
    try:
        if rng.random() < 0.3:
            os.makedirs(target)
            with open(os.path.join(target, 'old.txt'), 'w') as fil:
                fil.write('already there')
        before = listing(work)
        raised = None
        try:
            report = build_report(tree, how)
            rst = Rst(Representation(rep, Verbosity.FULL_DETAILS),
                      n_workers=n_workers)
            fmt = rst.format_report(report=report, author='vf', version='0')
            if sequence and not unusable and not too_deep:
                ocnt = Counter()
                ocnt.num = 5000
                other = gen_tree(rng, ocnt, 0, 2, None)
                fix_titles(other)
                rst.format_report(report=build_report(other, how), author='vf',
                                  version='0')
                rec.count('reports_formatted_in_between')
            fmt.write(target)
        except Exception as err:  # pylint: disable=broad-except
            raised = err
        after = listing(work)
        outside = {k for k in after if not k.startswith('report' + os.sep)}
        if outside - set(before):
            rec.violation('file-written-outside-the-target-directory',
                          f'{sorted(outside - set(before))} (titles '
                          f'{[n["title"] for _, n in walk(tree)][:8]})', case)
        if unusable or too_deep:
            rec.count('rejections_checked')
            why = 'unusable-title' if unusable else 'too-deep'
            if raised is None:
                rec.violation(f'{why}-not-rejected', f'{unusable or "depth"}'
                              f' accepted; files: {sorted(after)[:10]}', case)
            elif after != before:
                new = sorted(set(after) - set(before))
                rec.violation(f'{why}-rejected-after-writing',
                              f'{type(raised).__name__} for {unusable} but '
                              f'{len(new)} files were already written: '
                              f'{new[:6]}', case)
            rec.seen((style, depth_of(tree), len(unusable)))
            return
        if raised is not None:
            if isinstance(raised, ValueError) and after == before:
                # a refusal before anything is written is always acceptable
                msg = str(raised)
                why = ('same-page' if 'same page' in msg
                       else 'page-is-directory' if 'directory' in msg
                       else 'other')
                if why != 'other' and why not in collisions(tree):
                    # refused for a collision that the titles do not have
                    why = 'other'
                if why == 'other':
                    # the only legitimate refusals of a tree with usable
                    # titles and <= 5 levels are page collisions
                    rec.violation('valid-tree-refused', f'{raised!r} for a '
                                  f'tree of depth {depth_of(tree)} built by '
                                  f'{how}; titles '
                                  f'{[n["title"] for _, n in walk(tree)][:8]}',
                                  case)
                    return
                rec.count('refused_cleanly')
                rec.count('refused.' + why)
                return
            rec.violation(f'write-raised-{type(raised).__name__}',
                          f'{raised!r}; titles '
                          f'{[n["title"] for _, n in walk(tree)][:10]}', case)
            return
        rec.count('reports_written')
        check_written(tree, target, rec, case, with_plots)
        if idx % 3 == 0:
            # the same formatted report written once more, somewhere else
            again = os.path.join(work, 'again', 'report')
            try:
                fmt.write(again)
            except Exception as err:  # pylint: disable=broad-except
                rec.violation(f'second-write-raised-{type(err).__name__}',
                              repr(err), case)
            else:
                rec.count('reports_written_twice')
                first = {k[len('report' + os.sep):]: v
                         for k, v in listing(work).items()
                         if k.startswith('report' + os.sep)}
                second = listing(again)
                first.pop('old.txt', None)
                if set(first) != set(second):
                    rec.violation('second-write-differs-from-the-first',
                                  'files only in one of the two copies: '
                                  f'{sorted(set(first) ^ set(second))[:8]}',
                                  case)
                else:
                    diff = [k for k in first if first[k] != second[k]
                            and k.endswith('.rst')]
                    if diff:
                        rec.violation('second-write-differs-from-the-first',
                                      f'pages differ: {diff[:6]}', case)
        titles = [n['title'] for _, n in walk(tree)]
        rec.seen((depth_of(tree), len(titles),
                  sorted(t for t in titles if t in RESERVED),
                  len(titles) - len(set(titles))))
        if idx % 300 == 0:
            rec.sample({'chains': [list(c) for c, _ in walk(tree)][:12],
                        'pages': sorted(k for k in after
                                        if k.endswith('.rst'))[:12]})
    finally:
        shutil.rmtree(work, ignore_errors=True)


def run(spec, rec):
    for idx in range(spec['lo'], spec['hi']):
        run_case(spec['seed'], idx, spec['tier'], rec)


def replay(case, rec):
    run_case(case['seed'], case['idx'], case.get('tier', 'quick'), rec)
