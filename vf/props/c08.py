'''C08 -- dataset arithmetic propagates uncorrelated errors and keeps datasets
well formed.

Monitor: post-conditions evaluated after every operation of random chains on
the real Dataset class (value = plain numpy operation; error = first-order
formula computed element by element in plain Python floats; bins = those of the
left operand; operands bit-for-bit unchanged; copies share no memory and do not
alias), plus the icontract class invariant "well formed" installed on the real
class.'''
import math
import warnings

import numpy as np

from vf import core, gen, snapshot, contracts

PROP = 'C08'
LEVEL = 'exploration'
RULE = ('random chains of 1-8 operations (+ - * / with dataset / ndarray / '
        'int / float right operands, negative numbers and zero included '
        '(also -2**63 and signed integer arrays holding the lower limit of '
        'their type, on unmasked datasets), '
        'interleaved with copy, mask, squeeze) on datasets of shape () to '
        '4-d with bins as edges, centres, mixed or none; a case is distinct '
        'by (shape, bins kind, sequence of (operation, operand kind, sign '
        'class)) and non-trivial when at least one arithmetic operation '
        'produced a dataset that was checked')
DECIDING = ['op_checked', 'copy_checked', 'invariant_evals']
ASSUMPTIONS = ['numpy arithmetic is trusted as "the plain array operation"',
               'error formulas compared with rel. tol. 1e-12, NaN-aware',
               'raising ValueError/TypeError for incompatible operands is a '
               'correct outcome']
SHARD_TIMEOUT = {'quick': 600, 'thorough': 3000}
RTOL = 1e-12


def plan(tier, seed):
    specs = core.std_plan(PROP, tier, seed, quick=6000, thorough=120000)
    if tier == 'thorough':
        # the repository's own tests with the contracts switched on
        specs.append({'prop': PROP, 'tier': tier, 'seed': seed,
                      'shard': 9000, 'mode': 'repo-tests',
                      'hashseed': 0})
    return specs


def _flat(arr):
    if isinstance(arr, np.ma.MaskedArray):
        data = np.asarray(arr.data, dtype=float).ravel().tolist()
        mask = np.ma.getmaskarray(arr).ravel().tolist()
        return data, mask
    data = np.asarray(arr, dtype=float).ravel().tolist()
    return data, [False] * len(data)


def _close(got, exp):
    if got != got and exp != exp:
        return True
    if got == exp:
        return True
    if math.isinf(got) or math.isinf(exp) or got != got or exp != exp:
        return False
    return abs(got - exp) <= RTOL * max(abs(got), abs(exp)) + 1e-300


def _bc(flat, mask, shape_from, shape_to):
    '''Broadcast a flat list of shape `shape_from` to `shape_to`.'''
    arr = np.broadcast_to(np.array(flat, dtype=float).reshape(shape_from),
                          shape_to)
    msk = np.broadcast_to(np.array(mask, dtype=bool).reshape(shape_from),
                          shape_to)
    return arr.ravel().tolist(), msk.ravel().tolist()


def expected_error(opn, lhs, rhs, rshape):
    '''First-order uncorrelated error, element by element, in Python floats.
    Returns (list of expected errors, list of "don't check" flags).'''
    from valjean.eponine.dataset import Dataset
    v_1, m_1 = _bc(*_flat(lhs.value), np.shape(lhs.value), rshape)
    e_1, _ = _bc(*_flat(lhs.error), np.shape(lhs.error), rshape)
    if isinstance(rhs, Dataset):
        v_2, m_2 = _bc(*_flat(rhs.value), np.shape(rhs.value), rshape)
        e_2, _ = _bc(*_flat(rhs.error), np.shape(rhs.error), rshape)
    else:
        v_2, m_2 = _bc(*_flat(rhs), np.shape(rhs), rshape)
        e_2 = [0.0] * len(v_2)
    out, skip = [], []
    for a, ea, b, eb, ma, mb in zip(v_1, e_1, v_2, e_2, m_1, m_2):
        skip.append(bool(ma or mb))
        with np.errstate(all='ignore'):
            try:
                if opn in ('add', 'sub'):
                    out.append(math.hypot(ea, eb))
                elif opn == 'mul':
                    out.append(math.hypot(ea * b, eb * a))
                else:
                    if b == 0:
                        # 1/0: numpy gives inf or nan; reproduce with numpy
                        # scalars (the statement only covers finite results)
                        t_1 = np.float64(ea) / np.float64(abs(b))
                        t_2 = (np.float64(abs(a)) * np.float64(eb)
                               / np.float64(b) ** 2)
                        out.append(float(np.hypot(t_1, t_2)))
                        skip[-1] = skip[-1] or True
                    else:
                        out.append(math.hypot(ea / b, a * eb / (b * b)))
            except OverflowError:
                out.append(float('inf'))
                skip[-1] = True
    return out, skip


def plain_value(opn, lval, rval):
    with np.errstate(all='ignore'):
        if opn == 'add':
            return lval + rval
        if opn == 'sub':
            return lval - rval
        if opn == 'mul':
            return lval * rval
        return lval / rval


def apply_op(opn, lhs, rhs):
    with np.errstate(all='ignore'):
        if opn == 'add':
            return lhs + rhs
        if opn == 'sub':
            return lhs - rhs
        if opn == 'mul':
            return lhs * rhs
        return lhs / rhs


def bins_equal(b_1, b_2):
    if list(b_1.keys()) != list(b_2.keys()):
        return False
    return all(np.array_equal(np.asarray(b_1[k]), np.asarray(b_2[k]))
               for k in b_1)


def make_operand(rng, cur):
    '''Right operand and its (kind, sign class).'''
    from valjean.eponine.dataset import Dataset
    shp = np.shape(cur.value)
    kind = rng.choice(['dataset', 'dataset', 'dataset', 'int', 'float',
                       'float', 'negfloat', 'negint', 'zero', 'ndarray',
                       'ndarray_bc', 'ndarray_bad', 'dataset_bad',
                       'ndarray'])
    masked = isinstance(cur.value, np.ma.MaskedArray)
    # (not on masked datasets: numpy.ma's own division hides every cell
    # when the divisor is the most negative integer of its type, because
    # abs() of that integer overflows -- numpy is trusted, not judged)
    if kind == 'negint' and rng.random() < 0.15 and not masked:
        # the most negative 64-bit integer (its absolute value does not exist
        # among the 64-bit integers)
        return -2 ** 63, kind, '-'
    if kind == 'ndarray' and rng.random() < 0.2 and not masked:
        # signed integers (counts, weights) down to the lower limit of their
        # type
        dtype = np.dtype(rng.choice(['i1', 'i2', 'i4', 'i8']))
        size = int(np.prod(shp, dtype=int))
        flat = [rng.randint(-4, 9) or 1 for _ in range(size)]
        flat[rng.randrange(size)] = int(np.iinfo(dtype).min)
        return np.array(flat, dtype=dtype).reshape(shp), kind, '-'
    if kind == 'dataset':
        val = gen.values(rng, shp)
        if rng.random() < 0.7:
            val = np.where(val == 0, 1.5, val)
        err = gen.errors(rng, shp)
        if shp == ():
            val, err = np.float64(val), np.float64(err)
        how = rng.choice(['same', 'same', 'nobins'])
        bns = cur.bins if how == 'same' else None
        if not cur.bins and shp and rng.random() < 0.5:
            # the left operand has no bins, the right one has: the result
            # keeps the (absent) bins of the left operand
            how = 'ownbins'
            bns = gen.bins(rng, shp, rng.choice(['edges', 'centres']))
        if bns is not None:
            from collections import OrderedDict
            bns = OrderedDict((k, np.array(v, copy=True))
                              for k, v in bns.items())
        return (Dataset(val, err, bins=bns, name='rhs', what=rng.choice(
            ['flux', 'rate'])), kind, how)
    if kind == 'dataset_bad':
        shp2 = tuple(d + 1 for d in shp) if shp else (2,)
        return (Dataset(gen.values(rng, shp2), gen.errors(rng, shp2),
                        name='bad'), kind, 'shape')
    if kind == 'int':
        return rng.choice([1, 2, 3, 7]), kind, '+'
    if kind == 'negint':
        return rng.choice([-1, -2, -5]), kind, '-'
    if kind == 'float':
        return rng.choice([0.5, 2.0, 3.25, 1e-3, 1e4]), kind, '+'
    if kind == 'negfloat':
        return rng.choice([-0.5, -2.0, -1e3]), kind, '-'
    if kind == 'zero':
        return rng.choice([0, 0.0]), kind, '0'
    if kind == 'ndarray':
        arr = gen.values(rng, shp, kind=rng.choice(['nice', 'gauss', 'int']))
        sign = '-' if np.any(np.asarray(arr) < 0) else '+'
        if rng.random() < 0.2:
            # arrays of unsigned integers (counts): -arr would wrap around
            arr = np.asarray(np.abs(np.rint(np.asarray(arr)))
                             % 200, dtype=rng.choice(['u1', 'u2', 'u4']))
            return arr, kind, '+'
        return np.asarray(arr, dtype=float), kind, sign
    if kind == 'ndarray_bc':
        if not shp:
            return np.array(rng.choice([2.0, -3.0])), kind, 'bc'
        sub = shp[rng.randint(0, len(shp) - 1) + 1:] if len(shp) > 1 else (1,)
        arr = gen.values(rng, sub, kind='nice')
        return np.asarray(arr, dtype=float), kind, 'bc'
    bad = tuple(d + 2 for d in shp) if shp else (2, 2)
    return gen.values(rng, bad), kind, 'shape'


def check_case(seed, idx, rec):
    '''Run one chain.'''
    # pylint: disable=too-many-locals,too-many-branches,too-many-statements
    from valjean.eponine.dataset import Dataset
    rng = core.rng_for(seed, PROP, idx)
    case = {'seed': seed, 'idx': idx}
    cur = gen.dataset(rng)
    bkind = ('none' if not cur.bins else ''.join(
        'e' if len(b) == d + 1 else 'c'
        for b, d in zip(cur.bins.values(), np.shape(cur.value))))
    sig = [list(np.shape(cur.value)), bkind]
    nops = rng.randint(1, 8)
    checked = 0
    keep = []       # earlier datasets with their digests: must never change
    for step in range(nops):
        action = rng.choice(['op'] * 6 + ['copy', 'copy', 'mask', 'squeeze'])
        keep.append((cur, snapshot.digest(cur)))
        try:
            if action == 'op':
                opn = rng.choice(['add', 'sub', 'mul', 'div'])
                rhs, rkind, sign = make_operand(rng, cur)
                sig.append([opn, rkind, sign])
                d_l, d_r = snapshot.digest(cur), snapshot.digest(rhs)
                try:
                    res = apply_op(opn, cur, rhs)
                except (ValueError, TypeError) as err:
                    rec.count('op_raised_' + type(err).__name__)
                    if rkind in ('dataset', 'int', 'float', 'negint',
                                 'negfloat', 'zero', 'ndarray') and not (
                                     rkind == 'dataset' and sign == 'nobins'
                                     and False):
                        # compatible operands must be accepted
                        if not (rkind == 'dataset'
                                and isinstance(cur.value, np.ma.MaskedArray)
                                and False):
                            rec.violation(
                                'compatible-operand-rejected',
                                f'{opn} with {rkind} raised {err!r}; '
                                f'sig={sig}', case)
                    res = None
                if snapshot.digest(cur) != d_l:
                    rec.violation('left-operand-modified',
                                  f'{opn} {rkind}: left operand changed; '
                                  f'sig={sig}', case)
                if snapshot.digest(rhs) != d_r:
                    rec.violation('right-operand-modified',
                                  f'{opn} {rkind}: right operand changed; '
                                  f'sig={sig}', case)
                if res is None:
                    continue
                rval = rhs.value if isinstance(rhs, Dataset) else rhs
                exp_val = plain_value(opn, cur.value, rval)
                rshape = np.shape(exp_val)
                ok_val = (np.shape(res.value) == rshape and np.array_equal(
                    np.ma.filled(np.ma.asarray(res.value, dtype=float),
                                 np.nan),
                    np.ma.filled(np.ma.asarray(exp_val, dtype=float), np.nan),
                    equal_nan=True))
                if not ok_val:
                    rec.violation(f'value-{opn}-{_rk(rkind)}',
                                  f'value differs from plain numpy {opn}: '
                                  f'got {res.value!r} expected {exp_val!r}; '
                                  f'sig={sig}', case)
                if np.shape(res.error) != np.shape(res.value):
                    rec.violation('malformed-result', f'value/error shapes '
                                  f'{np.shape(res.value)} vs '
                                  f'{np.shape(res.error)}; sig={sig}', case)
                else:
                    exp_err, skip = expected_error(opn, cur, rhs, rshape)
                    inputs_ok = nonneg_errors(cur) and (
                        not isinstance(rhs, Dataset) or nonneg_errors(rhs))
                    got_err, gmask = _flat(res.error)
                    bad = None
                    for pos, (g_e, x_e, skp, gmk) in enumerate(
                            zip(got_err, exp_err, skip, gmask)):
                        if gmk:
                            continue
                        if g_e < 0 and not skp and inputs_ok:
                            rec.violation(
                                f'negative-error-{opn}-{_rk(rkind)}',
                                f'{opn} with {rkind} ({sign}) gives error '
                                f'{g_e} at flat index {pos}; sig={sig}', case)
                            bad = True
                            break
                        if skp:
                            continue
                        if not _close(g_e, x_e):
                            bad = (pos, g_e, x_e)
                            break
                    if bad not in (None, True):
                        rec.violation(
                            f'error-{opn}-{_rk(rkind)}',
                            f'error of {opn} with {rkind}: got {bad[1]!r} '
                            f'expected {bad[2]!r} at flat index {bad[0]}; '
                            f'sig={sig}', case)
                if not bins_equal(res.bins, cur.bins):
                    rec.violation(f'bins-not-left-{opn}-{_rk(rkind)}',
                                  f'bins of result {res.bins} differ from '
                                  f'left operand {cur.bins}; sig={sig}', case)
                rec.count('op_checked')
                checked += 1
                cur = res
                if not in_quantifier(cur):
                    # non-finite values or errors (division by zero ...): the
                    # statement quantifies over finite values only
                    rec.count('chain_left_quantifier')
                    break
            elif action == 'copy':
                sig.append(['copy'])
                cop = cur.copy()
                if snapshot.digest(cop) != snapshot.digest(cur) and not \
                        isinstance(cur.value, np.ma.MaskedArray):
                    rec.violation('copy-differs', f'copy differs; sig={sig}',
                                  case)
                pairs = [(cur.value, cop.value, 'value'),
                         (cur.error, cop.error, 'error')]
                pairs += [(cur.bins[k], cop.bins[k], f'bins[{k}]')
                          for k in cur.bins if k in cop.bins]
                for orig, new, what in pairs:
                    if (isinstance(orig, np.ndarray) and orig.size
                            and not isinstance(orig,
                                               np.ma.core.MaskedConstant)
                            and isinstance(new, np.ndarray)
                            and np.shares_memory(orig, new)):
                        rec.violation(
                            'copy-shares-' + what.split('[')[0],
                            f'copy().{what} shares memory with the '
                            f'original; sig={sig}', case)
                # behavioural aliasing: mutate the copy everywhere
                d_0 = snapshot.digest(cur)
                try:
                    if isinstance(cop.value, np.ndarray) and cop.value.size:
                        np.ma.getdata(cop.value)[...] += 1
                        np.ma.getdata(cop.error)[...] += 1
                        if isinstance(cop.value, np.ma.MaskedArray):
                            np.ma.getmaskarray(cop.value)[...] = True
                    for key in list(cop.bins):
                        if len(cop.bins[key]):
                            cop.bins[key][...] = cop.bins[key] * 3 + 1
                    cop.bins['zz'] = np.arange(2)
                    cop.name += 'x'
                except (ValueError, TypeError):
                    rec.count('copy_mutation_refused')
                if snapshot.digest(cur) != d_0:
                    rec.violation('copy-aliases-original',
                                  'mutating a copy changed the original; '
                                  f'sig={sig}', case)
                rec.count('copy_checked')
                cur = cur.copy()
            elif action == 'mask':
                if not isinstance(cur.value, np.ndarray) or not cur.value.size:
                    continue
                sig.append(['mask'])
                msk = np.array([rng.random() < 0.3 for _ in range(
                    cur.value.size)]).reshape(cur.value.shape)
                d_0 = snapshot.digest(cur)
                res = cur.mask(msk)
                # numpy keeps an existing mask: the result is the union
                msk = msk | np.ma.getmaskarray(cur.value)
                if snapshot.digest(cur) != d_0:
                    rec.violation('mask-modified-original', f'sig={sig}',
                                  case)
                if not (np.array_equal(np.ma.getmaskarray(res.value), msk)
                        and np.array_equal(np.ma.getmaskarray(res.error), msk)
                        and bins_equal(res.bins, cur.bins)):
                    rec.violation('mask-wrong', f'mask result wrong; '
                                  f'sig={sig}', case)
                rec.count('mask_checked')
                cur = res
            else:
                if not isinstance(cur.value, np.ndarray) or not cur.bins:
                    continue
                sig.append(['squeeze'])
                d_0 = snapshot.digest(cur)
                res = cur.squeeze()
                if snapshot.digest(cur) != d_0:
                    rec.violation('squeeze-modified-original', f'sig={sig}',
                                  case)
                rec.count('squeeze_checked')
                if isinstance(res.value, np.ndarray):
                    cur = res
        except contracts.InvariantBroken as err:
            rec.violation('malformed-result',
                          f'class invariant broken: {err}; sig={sig}', case)
            break
        except Exception as err:  # pylint: disable=broad-except
            rec.violation('unexpected-' + type(err).__name__,
                          f'{action} raised {err!r}; sig={sig}', case)
            break
    for dset, dig in keep:
        if snapshot.digest(dset) != dig:
            rec.violation('earlier-dataset-modified',
                          f'an earlier dataset of the chain changed later; '
                          f'sig={sig}', case)
            break
    rec.count('evaluations')
    if checked:
        rec.seen(sig)
    if idx % 997 == 0:
        rec.sample({'case': case, 'signature': sig})


def nonneg_errors(dset):
    err = np.ma.filled(np.ma.asarray(dset.error, dtype=float), 0.0)
    return bool(np.all(err >= 0))


def in_quantifier(dset):
    val = np.ma.filled(np.ma.asarray(dset.value, dtype=float), 0.0)
    err = np.ma.filled(np.ma.asarray(dset.error, dtype=float), 0.0)
    return bool(np.all(np.isfinite(val)) and np.all(np.isfinite(err))
                and np.all(err >= 0))


def _rk(kind):
    '''Operand class used in mechanism keys.'''
    if kind.startswith('dataset'):
        return 'dataset'
    if kind.startswith('ndarray'):
        return 'ndarray'
    return 'number'


def run(spec, rec):
    if spec.get('mode') == 'repo-tests':
        core.repo_tests_under_contracts(['Dataset'],
                                        ['tests/eponine/test_dataset.py', 'valjean/eponine/dataset.py', 'tests/gavroche'],
                                        rec, {'mode': 'repo-tests'})
        for name in DECIDING:
            rec.count(name, 0)
        return
    warnings.simplefilter('ignore')
    contracts.install(['Dataset'])
    for idx in range(spec['lo'], spec['hi']):
        check_case(spec['seed'], idx, rec)
    rec.counters['invariant_evals'] = contracts.EVALS.get(
        'Dataset.well_formed', 0)


def replay(case, rec):
    warnings.simplefilter('ignore')
    contracts.install(['Dataset'])
    check_case(case['seed'], case['idx'], rec)
