'''C06 -- Bonferroni and Holm-Bonferroni flag exactly the bins their
definitions reject.

Monitor: flags returned by the real static methods (arbitrary p-value arrays)
and by the full TestBonferroni / TestHolmBonferroni(test=TestStudent(...))
path are compared with the definitions evaluated in plain Python floats on the
flattened array (tie-group aware for Holm); positions are checked under
reshaping and permutation; inclusion and pass-through relations are checked on
the same executions.'''
import itertools
import math
import warnings

import numpy as np

from vf import core, gen

PROP = 'C06'
LEVEL = 'exploration'
RULE = ('(a) exhaustive: every p-value array of 1..3 bins (1..4 thorough) '
        'over the alphabet {0, 1, NaN} + {level/j and its two float '
        'neighbours, j=1..m}, in every shape that holds it, two levels; (b) '
        'random p-value arrays (ties, zeros, ones, NaN, values placed around '
        'the per-rank thresholds) of size <= 64 in random shapes, with a '
        'random permutation and reshape; (c) full path through TestStudent '
        'with 1-3 datasets; distinct by (path, shape, flag pattern hash, NaN '
        'pattern); non-trivial when at least one flag was compared')
DECIDING = ['bonf_flags_checked', 'holm_flags_checked', 'full_path_checked',
            'position_checks']
ASSUMPTIONS = ['the "overall level" of the full path is the level the test '
               'object itself reports (alpha/2: the classes document a '
               'two-sided convention); the static methods receive the level '
               'explicitly',
               'Holm ties: any assignment of the ranks inside a tie group is '
               'accepted (count of flags and multiset of per-bin levels)',
               'p == level/m exactly is excluded from the inclusion check '
               '(<= versus < in the two definitions)']


def plan(tier, seed):
    specs = core.std_plan(PROP, tier, seed, quick=4000, thorough=100000,
                          shards=core.NCPU - 2)
    for lev_i in (0, 1):
        specs.append({'prop': PROP, 'tier': tier, 'seed': seed, 'hashseed': 0,
                      'exhaustive': True, 'level_index': lev_i,
                      'mmax': 3 if tier == 'quick' else 4})
    return specs


# ---- reference definitions -------------------------------------------------
def ref_bonferroni(flat, per_bin_level):
    '''flag <=> p <= level/m; an undefined p-value is never accepted.'''
    return [True if p != p else p <= per_bin_level for p in flat]


def ref_holm(flat, level):
    '''Per tie group: number of flags and multiset of levels.  Returns
    (groups, nan_positions) where groups is a list of (positions, nflag,
    levels) in increasing p order.'''
    num = len(flat)
    valid = sorted((p, i) for i, p in enumerate(flat) if p == p)
    nans = [i for i, p in enumerate(flat) if p != p]
    groups = []
    rank = 1
    for pval, grp in itertools.groupby(valid, key=lambda x: x[0]):
        pos = [i for _, i in grp]
        levels = [level / (num - (rank + j) + 1) for j in range(len(pos))]
        nflag = sum(1 for lev in levels if pval < lev)
        groups.append((pos, nflag, levels))
        rank += len(pos)
    nan_levels = [level / (num - (rank + j) + 1) for j in range(len(nans))]
    return groups, nans, nan_levels


def check_bonf(pvals, level, rec, case, tag):
    from valjean.gavroche.stat_tests.bonferroni import TestBonferroni
    flat = np.asarray(pvals, dtype=float).ravel().tolist()
    try:
        got = np.asarray(TestBonferroni.bonferroni_correction(
            np.asarray(pvals), level))
    except Exception as err:  # pylint: disable=broad-except
        rec.violation('bonferroni-raised-' + type(err).__name__,
                      f'{tag}: {err!r}', case)
        return None
    if got.shape != np.shape(pvals):
        rec.violation('bonferroni-shape', f'{tag}: {got.shape}', case)
        return None
    exp = ref_bonferroni(flat, level)
    gflat = got.ravel().tolist()
    for i, (g_f, e_f) in enumerate(zip(gflat, exp)):
        if bool(g_f) != e_f:
            mech = ('bonferroni-nan-accepted' if flat[i] != flat[i]
                    else 'bonferroni-flag')
            rec.violation(mech, f'{tag}: bin {i} p={flat[i]!r} level='
                          f'{level!r}: flag {bool(g_f)} expected {e_f}', case)
            break
    rec.count('bonf_flags_checked', len(flat))
    return gflat


def check_holm(pvals, level, rec, case, tag):
    from valjean.gavroche.stat_tests.bonferroni import TestHolmBonferroni
    flat = np.asarray(pvals, dtype=float).ravel().tolist()
    try:
        alphas, got = TestHolmBonferroni.holm_bonferroni_method(
            np.asarray(pvals), level)
        alphas, got = np.asarray(alphas), np.asarray(got)
    except Exception as err:  # pylint: disable=broad-except
        rec.violation('holm-raised-' + type(err).__name__, f'{tag}: {err!r}',
                      case)
        return None
    if got.shape != np.shape(pvals) or alphas.shape != np.shape(pvals):
        rec.violation('holm-shape', f'{tag}: {got.shape} {alphas.shape}',
                      case)
        return None
    gflat = [bool(x) for x in got.ravel().tolist()]
    aflat = alphas.ravel().tolist()
    groups, nans, nan_levels = ref_holm(flat, level)
    for pos, nflag, levels in groups:
        g_n = sum(1 for i in pos if gflat[i])
        if g_n != nflag:
            rec.violation('holm-flag', f'{tag}: p={flat[pos[0]]!r} at '
                          f'positions {pos}: {g_n} flagged, definition says '
                          f'{nflag} (levels {levels})', case)
            break
        if sorted(aflat[i] for i in pos) != sorted(levels):
            rec.violation('holm-levels', f'{tag}: positions {pos}: levels '
                          f'{[aflat[i] for i in pos]} expected {levels}', case)
            break
        # inside a group a flagged bin must carry a level above p
        for i in pos:
            if gflat[i] != (flat[i] < aflat[i]):
                rec.violation('holm-flag-vs-own-level', f'{tag}: bin {i}',
                              case)
                break
    for i in nans:
        if not gflat[i]:
            rec.violation('holm-nan-accepted', f'{tag}: bin {i} has an '
                          'undefined p-value and is not flagged', case)
            break
    if nans and sorted(aflat[i] for i in nans) != sorted(nan_levels):
        rec.count('holm_nan_levels_differ')
    rec.count('holm_flags_checked', len(flat))
    return gflat


def check_relations(pvals, level, b_flags, h_flags, rec, case, tag):
    '''Bonferroni subset of Holm (same overall level).'''
    flat = np.asarray(pvals, dtype=float).ravel().tolist()
    num = len(flat)
    if b_flags is None or h_flags is None:
        return
    for i, (b_f, h_f) in enumerate(zip(b_flags, h_flags)):
        if b_f and not h_f and flat[i] == flat[i] and flat[i] != level / num:
            rec.violation('bonferroni-not-subset-of-holm', f'{tag}: bin {i} '
                          f'p={flat[i]!r}', case)
            break
    rec.count('inclusion_checks')


def alphabet(level, num):
    vals = [0.0, 1.0, float('nan')]
    for j in range(1, num + 1):
        thr = level / j
        vals += [thr, math.nextafter(thr, 1.0), math.nextafter(thr, 0.0)]
    return sorted(set(v for v in vals if v == v)) + [float('nan')]


def shapes_of(num):
    out = [(num,)]
    for a in range(1, num + 1):
        if num % a == 0 and (a, num // a) not in out:
            out.append((a, num // a))
    if num == 4:
        out.append((2, 1, 2))
    if num == 1:
        out.append(())
    return out


def run_exhaustive(spec, rec):
    level = (0.005, 0.3)[spec['level_index']]
    for num in range(1, spec['mmax'] + 1):
        alph = alphabet(level, num)
        for combo in itertools.product(alph, repeat=num):
            for shp in shapes_of(num):
                arr = np.array(combo, dtype=float).reshape(shp)
                case = {'exhaustive': True, 'level': level, 'p': list(combo),
                        'shape': list(shp)}
                tag = f'level={level} p={list(combo)} shape={list(shp)}'
                b_f = check_bonf(arr, level / num, rec, case, tag)
                h_f = check_holm(arr, level, rec, case, tag)
                check_relations(arr, level, b_f, h_f, rec, case, tag)
                rec.count('evaluations')
            rec.seen(('exh', level, combo))
    rec.exhaustive[f'alphabet_arrays_m<={spec["mmax"]}_level={level}'] = True
    rec.sample({'exhaustive_alphabet': alphabet(level, 2), 'level': level})


def gen_pvalues(rng, level):
    shp = gen.shape(rng, allow_scalar=False, max_size=64)
    size = int(np.prod(shp, dtype=int))
    style = rng.choice(['uniform', 'thresholds', 'ties', 'small'])
    flat = []
    for _ in range(size):
        if style == 'uniform':
            flat.append(rng.random())
        elif style == 'small':
            flat.append(10 ** rng.uniform(-8, 0))
        elif style == 'ties':
            flat.append(rng.choice([0.0, 1.0, level / size, 1e-4, 0.5,
                                    level / max(1, size - 1)]))
        else:
            j = rng.randint(1, size)
            flat.append(level / j * rng.choice([1.0, 0.999, 1.001, 0.5, 2.0]))
    for _ in range(rng.choice([0, 0, 0, 1, 2])):
        flat[rng.randrange(size)] = float('nan')
    return np.array([min(1.0, x) if x == x else x for x in flat]).reshape(shp)


def run_static_case(seed, idx, rec):
    rng = core.rng_for(seed, PROP, 'static', idx)
    level = rng.choice([0.005, 0.025, 10 ** rng.uniform(-6, -0.01)])
    pvals = gen_pvalues(rng, level)
    size = pvals.size
    case = {'seed': seed, 'idx': idx, 'path': 'static'}
    tag = f'static level={level!r} shape={list(pvals.shape)}'
    b_f = check_bonf(pvals, level / size, rec, case, tag)
    h_f = check_holm(pvals, level, rec, case, tag)
    check_relations(pvals, level, b_f, h_f, rec, case, tag)
    # positions under permutation + reshape (tie-free arrays only)
    flat = pvals.ravel()
    valid = flat[~np.isnan(flat)]
    if len(set(valid.tolist())) == len(valid) and b_f and h_f:
        from valjean.gavroche.stat_tests.bonferroni import (
            TestBonferroni, TestHolmBonferroni)
        perm = list(range(size))
        rng.shuffle(perm)
        nshp = rng.choice([s for s in shapes_of(size)] if size <= 4 else
                          [(size,), (1, size), (size, 1)])
        parr = flat[perm].reshape(nshp)
        b_2 = np.asarray(TestBonferroni.bonferroni_correction(
            parr, level / size)).ravel().tolist()
        h_2 = np.asarray(TestHolmBonferroni.holm_bonferroni_method(
            parr, level)[1]).ravel().tolist()
        if b_2 != [b_f[i] for i in perm]:
            rec.violation('bonferroni-position', f'{tag}: flags do not '
                          'follow the bins under permutation/reshape', case)
        nan_free = not np.isnan(flat).any()
        if nan_free and h_2 != [h_f[i] for i in perm]:
            rec.violation('holm-position', f'{tag}: flags do not follow the '
                          'bins under permutation/reshape', case)
        rec.count('position_checks')
    # the same logical array in another memory layout (Fortran order,
    # transposed view, strided view) must give the same flags per bin
    if pvals.ndim >= 2 and pvals.size > 1 and b_f and h_f:
        from valjean.gavroche.stat_tests.bonferroni import (
            TestBonferroni, TestHolmBonferroni)
        big = np.full(tuple(2 * d for d in pvals.shape), 0.5)
        big[tuple(slice(None, None, 2) for _ in pvals.shape)] = pvals
        views = {'fortran': np.asfortranarray(pvals),
                 'transposed-view': np.ascontiguousarray(pvals.T).T,
                 'strided-view': big[tuple(slice(None, None, 2)
                                           for _ in pvals.shape)]}
        name = rng.choice(sorted(views))
        view = views[name]
        assert view.shape == pvals.shape
        b_3 = np.asarray(TestBonferroni.bonferroni_correction(
            view, level / size))
        a_3, h_3 = TestHolmBonferroni.holm_bonferroni_method(view, level)
        a_1, _ = TestHolmBonferroni.holm_bonferroni_method(pvals, level)
        rec.count('layout_checks')
        if b_3.shape != pvals.shape or \
                np.asarray(b_3).tolist() != np.asarray(b_f).reshape(
                    pvals.shape).tolist():
            rec.violation('bonferroni-position', f'{tag}: flags change '
                          f'with the memory layout ({name})', case)
        tie_free = len(set(valid.tolist())) == len(valid)
        if tie_free and not np.isnan(flat).any() and (
                np.asarray(h_3).tolist() != np.asarray(h_f).reshape(
                    pvals.shape).tolist()
                or np.asarray(a_3).tolist() != np.asarray(a_1).tolist()):
            rec.violation('holm-position', f'{tag}: flags or levels change '
                          f'with the memory layout ({name})', case)
    rec.count('evaluations')
    if b_f is not None and h_f is not None:
        rec.seen(('static', list(pvals.shape), core.h((b_f, h_f)),
                  int(np.isnan(flat).sum())))
    if idx % 499 == 0:
        rec.sample({'case': case, 'level': level, 'p': flat.tolist()[:12],
                    'shape': list(pvals.shape)})


def run_full_case(seed, idx, rec):
    '''TestBonferroni / TestHolmBonferroni on top of TestStudent.'''
    # pylint: disable=too-many-locals
    from valjean.gavroche.stat_tests.bonferroni import (TestBonferroni,
                                                        TestHolmBonferroni)
    from vf.props import c05
    rng = core.rng_for(seed, PROP, 'full', idx)
    cas = c05.gen_case(rng)
    if rng.random() < 0.5:
        cas['alpha'] = rng.choice([0.01, 0.05, 0.1])
    case = {'seed': seed, 'idx': idx, 'path': 'full'}
    tag = (f'full shape={list(cas["shape"])} alpha={cas["alpha"]!r} '
           f'ndf={cas["ndf"]!r} nds={len(cas["others"])} '
           f'specials={cas["specials"]}')
    size = int(np.prod(cas['shape'], dtype=int))
    with np.errstate(all='ignore'):
        try:
            stud = c05.build(cas)
            s_res = stud.evaluate()
            # the level of the wrapped bin-by-bin test is its own business:
            # the corrections only use its p-values
            inner = cas if rng.random() < 0.6 else dict(
                cas, alpha=rng.choice([1e-9, 1e-4, 0.3, 0.9]))
            if inner is not cas:
                rec.count('wrapped_test_with_another_level')
            bonf = TestBonferroni(name='b', test=c05.build(inner),
                                  alpha=cas['alpha'])
            b_res = bonf.evaluate()
            holm = TestHolmBonferroni(name='h', test=c05.build(inner),
                                      alpha=cas['alpha'])
            h_res = holm.evaluate()
            verdicts = bool(s_res), bool(b_res), bool(h_res)
        except Exception as err:  # pylint: disable=broad-except
            rec.violation('full-path-raised-' + type(err).__name__,
                          f'{tag}: {err!r}', case)
            return
    level = float(bonf.alpha)
    if not math.isclose(level, float(holm.alpha)):
        rec.violation('levels-differ', f'{tag}: {level} vs {holm.alpha}',
                      case)
    anyflag = {'b': False, 'h': False}
    for k in range(len(cas['others'])):
        pvals = np.asarray(s_res.pvalue[k], dtype=float)
        flat = pvals.ravel().tolist()
        per_bin = float(bonf.bonf_signi_level)
        if not math.isclose(per_bin, level / size, rel_tol=1e-12):
            rec.violation('bonferroni-level', f'{tag}: per-bin level '
                          f'{per_bin!r}, expected {level / size!r}', case)
        near = [abs(p - per_bin) <= 1e-12 * per_bin for p in flat]
        exp_b = ref_bonferroni(flat, per_bin)
        got_b = np.asarray(b_res.rejected_null_hyp[k]).ravel().tolist()
        for i, (g_f, e_f) in enumerate(zip(got_b, exp_b)):
            if not near[i] and bool(g_f) != e_f:
                mech = ('bonferroni-nan-accepted' if flat[i] != flat[i]
                        else 'bonferroni-flag')
                rec.violation(mech, f'{tag}: dataset {k} bin {i} '
                              f'p={flat[i]!r}: flag {bool(g_f)} expected '
                              f'{e_f}', case)
                break
        anyflag['b'] = anyflag['b'] or any(exp_b)
        got_h = [bool(x) for x in np.asarray(
            h_res.rejected_null_hyp[k]).ravel().tolist()]
        groups, nans, _ = ref_holm(flat, level)
        for pos, nflag, levels in groups:
            if any(abs(flat[pos[0]] - lev) <= 1e-12 * lev for lev in levels):
                continue
            if sum(1 for i in pos if got_h[i]) != nflag:
                rec.violation('holm-flag', f'{tag}: dataset {k} '
                              f'p={flat[pos[0]]!r} positions {pos}', case)
                break
            anyflag['h'] = anyflag['h'] or nflag > 0
        for i in nans:
            anyflag['h'] = True
            if not got_h[i]:
                rec.violation('holm-nan-accepted', f'{tag}: dataset {k} bin '
                              f'{i}: undefined p-value not flagged', case)
                break
        if np.shape(b_res.rejected_null_hyp[k]) != np.shape(pvals) or \
                np.shape(h_res.rejected_null_hyp[k]) != np.shape(pvals):
            rec.violation('full-path-shape', tag, case)
        nbr = (int(b_res.nb_rejected[k]), int(h_res.nb_rejected[k]))
        if nbr != (sum(bool(x) for x in got_b), sum(got_h)):
            rec.violation('nb-rejected', f'{tag}: {nbr}', case)
    if verdicts[1] != (not any(np.any(r) for r in b_res.rejected_null_hyp)):
        rec.violation('bonferroni-verdict', tag, case)
    if verdicts[2] != (not any(np.any(r) for r in h_res.rejected_null_hyp)):
        rec.violation('holm-verdict', tag, case)
    if verdicts[0] and not (verdicts[1] and verdicts[2]):
        rec.violation('pass-through', f'{tag}: bin-by-bin test passes but '
                      f'corrections give {verdicts[1:]}', case)
    rec.count('full_path_checked')
    rec.count('evaluations')
    rec.seen(('full', list(cas['shape']), len(cas['others']),
              cas['specials'], verdicts))
    if idx % 3 == 0:
        second_evaluation(cas, bonf, holm, b_res, h_res, verdicts, rec, case,
                          tag)


def second_evaluation(cas, bonf, holm, b_res, h_res, verdicts, rec, case,
                      tag):
    '''The same test objects evaluate other data of the same shape: the new
    results follow the new data, the results obtained before are still what
    they were.'''
    # pylint: disable=too-many-arguments,too-many-locals
    import copy
    from vf.props import c05

    def snap(res):
        return ([np.asarray(r).ravel().tolist()
                 for r in res.rejected_null_hyp],
                [int(n) for n in res.nb_rejected], bool(res))
    before = snap(b_res), snap(h_res)
    cas2 = copy.deepcopy(cas)
    ref_v, ref_e = (np.array(x, dtype=float) for x in cas2['ref'])
    for k, (o_v, o_e) in enumerate(cas2['others']):
        o_e = np.array(o_e, dtype=float)
        if verdicts[2]:
            # nothing was flagged: now everything differs a lot
            o_v = ref_v + 40.0 * (np.nan_to_num(ref_e, posinf=1.0)
                                  + np.nan_to_num(o_e, posinf=1.0) + 1.0)
        else:
            o_v = ref_v.copy()
            o_e = np.where(np.isfinite(o_e) & (o_e > 0), o_e, 1.0)
        cas2['others'][k] = [o_v, o_e]
    with np.errstate(all='ignore'):
        try:
            bonf.test = c05.build(cas2)
            holm.test = c05.build(cas2)
            b_2, h_2 = bonf.evaluate(), holm.evaluate()
            s_2 = c05.build(cas2).evaluate()
        except Exception as err:  # pylint: disable=broad-except
            rec.violation('second-evaluation-raised-' + type(err).__name__,
                          f'{tag}: {err!r}', case)
            return
    rec.count('second_evaluations')
    if (snap(b_res), snap(h_res)) != before:
        rec.violation('earlier-result-changed-by-a-later-evaluation',
                      f'{tag}: flags / counts / verdict of the first results '
                      f'were {before}, now {(snap(b_res), snap(h_res))}',
                      case)
    per_bin = float(bonf.bonf_signi_level)
    for k in range(len(cas2['others'])):
        flat = np.asarray(s_2.pvalue[k], dtype=float).ravel().tolist()
        exp_b = ref_bonferroni(flat, per_bin)
        got_b = [bool(x) for x in
                 np.asarray(b_2.rejected_null_hyp[k]).ravel().tolist()]
        near = [abs(p - per_bin) <= 1e-12 * per_bin for p in flat]
        if any(g != e for g, e, n in zip(got_b, exp_b, near) if not n):
            rec.violation('second-evaluation-bonferroni-flag',
                          f'{tag}: dataset {k}: {got_b} expected {exp_b}',
                          case)
        got_h = [bool(x) for x in
                 np.asarray(h_2.rejected_null_hyp[k]).ravel().tolist()]
        if sum(got_h) < sum(e for e, n in zip(exp_b, near) if not n):
            rec.violation('second-evaluation-holm-flag', f'{tag}: dataset '
                          f'{k}: Holm flags {sum(got_h)} bins, Bonferroni '
                          f'{sum(exp_b)}', case)


def run(spec, rec):
    warnings.simplefilter('ignore')
    if spec.get('exhaustive'):
        run_exhaustive(spec, rec)
        return
    for idx in range(spec['lo'], spec['hi']):
        if idx % 2:
            run_static_case(spec['seed'], idx, rec)
        else:
            run_full_case(spec['seed'], idx, rec)


def replay(case, rec):
    warnings.simplefilter('ignore')
    if case.get('exhaustive'):
        arr = np.array([float(x) if not isinstance(x, str) else float('nan')
                        for x in case['p']]).reshape(case['shape'])
        num = arr.size
        b_f = check_bonf(arr, case['level'] / num, rec, case, 'replay')
        h_f = check_holm(arr, case['level'], rec, case, 'replay')
        check_relations(arr, case['level'], b_f, h_f, rec, case, 'replay')
    elif case['path'] == 'static':
        run_static_case(case['seed'], case['idx'], rec)
    else:
        run_full_case(case['seed'], case['idx'], rec)
