'''C10, Apollo3 part -- reading an Apollo3 HDF5 file returns every stored
result with its labels, identically through ``Reader(...).to_browser()`` and
through ``Picker.pick_*``.

``synthetic_case`` writes one random file with h5py following the layout
documented in ``valjean.eponine.apollo3.hdf5_reader`` (dtypes, padded byte
strings, ``(1,)`` scalars and anisotropy ``info`` groups as in the shipped
example files).  Every stored number is unique in the file, so a number found
in a browser item identifies the dataset it was stored in: the oracle is the
list of arrays written, never a second reader.  ``shipped_differential``
compares Reader, Picker and a plain h5py walk on the six shipped files.'''
import os
import shutil
import tempfile

import atexit
import h5py
import numpy as np

from vf import core

STEP = 1.0009765625
# Documented features that none of the shipped files exhibits: at most one of
# them per file (probability of each), used wherever the file gives the
# opportunity; its name is appended to the mechanism keys of missing items,
# unexpected items and exceptions so that they do not hide each other.
#   nval      -- the optional NVAL dataset beside LOCALNAME in totaloutput
#   nsurf1    -- NSURF = 1
#   bothlocal -- LOCALNAME/LOCALVALUE and the localvalue group side by side
RARE = {'nval': 0.05, 'nsurf1': 0.06, 'bothlocal': 0.10}
ZONES = ['zone_0', 'zone_1', 'zone_10', '1', '2', '3', 'q', 'fuel pin 1',
         'Mod 2a', 'UO2-7', 'clad ext', 'R 12 b', 'ZR4']
ISOTOPES = ['U235', 'U238', 'Pu239', 'Pu240', 'O16', 'H2O', 'B10', 'Xe135',
            'Sm149', 'I135', 'Zr90', 'TotalResidual_reduced_chain']
REACTIONS = ['Absorption', 'Diffusion', 'Fission', 'FissionSpectrum',
             'Nexcess', 'NuFission', 'Total', 'Capture']
LOCALS = ['Eigen value Minos', 'Eigen value Minaret', 'User_time_s',
          'sample_value1_unit1', 'RelativePower', 'Mino_RHO',
          'Pow_Mino_T0.055', 'SteadyState_keff', 'beta eff 2', 'rho_3']
NOT_RESULTS = ('NSURF', 'NVAL', 'LOCALNAME', 'LOCALVALUE')


def _pad(names):
    '''Byte strings padded with spaces to the longest one, as Apollo3 does.'''
    width = max(len(nam) for nam in names)
    return np.array([nam.ljust(width).encode() for nam in names],
                    dtype=f'S{width}')


def _i4(num):
    return np.array([num], dtype='i4')


def _std(out, zone, name, iso=None):
    '''The ``pick_standard_value`` call for one stored dataset.'''
    kws = {'output': out, 'zone': zone, 'result_name': name}
    if iso is not None:
        kws['isotope'] = iso
    return [('std', kws)]


def _loc(out, zone, name, idx=None):
    '''Picker calls for a local value: entry `idx` of LOCALVALUE, or (idx
    None) the dataset `name` of the ``localvalue`` group of out[/zone].'''
    if idx is None:
        return [('user', {'output': out if zone is None else f'{out}/{zone}',
                          'zone': 'localvalue', 'result_name': name})]
    return [('user', {'output': out, 'zone': zone, 'result_name': name}),
            ('index', {'output': out, 'zone': zone, 'result_index': idx,
                       'name': name})]


def _groups(ngr):
    return [('groups', np.arange(ngr))]


class _Truth:
    '''What was written: unique numbers, result arrays with their labels.'''

    def __init__(self, rng):
        self.rng = rng
        self.knt = 0
        self.scale = 2.0 ** rng.randint(-6, 6)
        self.items = []       # results: kind, arr, labels, shape, bins, picks
        self.info = {}        # output -> (geom_id, ngroups)
        self.geom = {}        # geom_id -> [(zone name, volume)]
        self.rare = set()     # rare features really present in the file
        draw, self.wish = rng.random(), None
        for name, prob in sorted(RARE.items()):
            if self.wish is None and draw < prob:
                self.wish = name
            draw -= prob
        self.stats = {'model': 'standard', 'nout': 0, 'nzones': 0, 'niso': 0,
                      'aniso': False, 'surf': False, 'locals': ''}

    def nums(self, shape, dtype):
        '''Fresh numbers, exactly representable in float32.'''
        size = int(np.prod(shape))
        vals = [((self.knt + i + 1) * STEP + 0.5) * self.scale
                * (-1.0 if self.rng.random() < 0.1 else 1.0)
                for i in range(size)]
        self.knt += size
        assert self.knt < 16000
        return np.array(vals, dtype=dtype).reshape(shape)

    def add(self, kind, arr, labels, shape, bins, picks):
        '''`labels` = (output, zone, isotope, result_name) expected in the
        browser, `shape` / `bins` as documented.'''
        self.items.append({'kind': kind, 'arr': arr, 'labels': labels,
                           'shape': shape, 'bins': bins, 'picks': picks})

    def fdt(self):
        return self.rng.choice(('f4', 'f8'))

    def tag(self):
        return ''.join(f'-with-{tag}' for tag in sorted(self.rare))


def _write_locals(grp, tru, out, zone):
    '''LOCALNAME / LOCALVALUE datasets and / or the ``localvalue`` group.'''
    rng = tru.rng
    mode = rng.choice(('scalars', 'group'))
    if tru.wish == 'bothlocal':
        mode = 'both'
        tru.rare.add('bothlocal')
    names = rng.sample(LOCALS, rng.randint(2, 5))
    cut = {'scalars': len(names), 'group': 0}.get(
        mode, rng.randint(1, len(names) - 1))
    tru.stats['locals'] = mode
    if cut:
        grp['LOCALNAME'] = _pad(names[:cut])
        vals = tru.nums((cut,), 'f4')
        grp['LOCALVALUE'] = vals
        if tru.wish == 'nval' and zone is not None:
            grp['NVAL'] = _i4(cut)
            tru.rare.add('nval')
        for i, nam in enumerate(names[:cut]):
            tru.add('localvalue-scalar', vals[i:i + 1], (out, zone, None, nam),
                    (), [], _loc(out, zone, nam, i))
    if cut < len(names):
        sub = grp.create_group('localvalue')
        sub['LOCALNAME'] = _pad(names[cut:])
        for nam in names[cut:]:
            arr = tru.nums((rng.choice((1, 1, 2, 3, 6)),), 'f4')
            sub[nam] = arr
            tru.add('localvalue-group', arr, (out, zone, None, nam),
                    arr.shape, [], _loc(out, zone, nam))


def _write_rates(grp, tru, out, zone, iso, ngr):
    '''Reaction rates of one isotope (or of ``macro``) with the anisotropy
    description used by the real files: ``info/nbAnisotropy`` for an isotope,
    ``info/<reaction>/nbAnisotropy`` for macro.'''
    rng = tru.rng
    macro = iso == 'macro'
    iso_naniso = rng.randint(1, 3)
    info = None
    for rea in rng.sample(REACTIONS, rng.randint(1, 4)):
        naniso = rng.randint(1, 3) if macro else rng.choice((1, iso_naniso))
        if rng.random() < 0.4:
            naniso = 1
        arr = tru.nums((ngr * naniso,), tru.fdt())
        grp[rea] = arr
        if macro and (naniso > 1 or rng.random() < 0.4):
            info = info if info is not None else grp.create_group('info')
            info.create_group(rea)['nbAnisotropy'] = _i4(naniso)
        labels = (out, zone, iso, rea.lower())
        if naniso > 1:
            tru.stats['aniso'] = True
            tru.add('rate-aniso', arr, labels, (naniso, ngr),
                    [('anisotropies', np.arange(naniso))] + _groups(ngr),
                    _std(out, zone, rea, iso))
        else:
            tru.add('rate', arr, labels, (ngr,), _groups(ngr),
                    _std(out, zone, rea, iso))
    if not macro and (iso_naniso > 1 or rng.random() < 0.4):
        grp.create_group('info')['nbAnisotropy'] = _i4(iso_naniso)


def _write_totaloutput(grp, tru, out, ngr):
    rng, zone = tru.rng, 'totaloutput'
    nsurf, which = 0, None
    if rng.random() < 0.45:
        nsurf = 1 if tru.wish == 'nsurf1' else rng.randint(2, 4)
        if nsurf == 1:
            tru.rare.add('nsurf1')
        tru.stats['surf'] = True
        grp['NSURF'] = _i4(nsurf)
        which = rng.choice(('SURFFLUX', 'CURRENT', 'both'))
    surf = _groups(ngr) + [('surfaces', np.arange(nsurf))]
    direc = [('direction', np.array(['incoming', 'leaving']))]
    for name, prob, kind, shape, bins in (
            ('KEFF', 1.0, 'scalar', (), []), ('KINF', 0.5, 'scalar', (), []),
            ('MIGRATIONAREA', 0.2, 'scalar', (), []),
            ('ABSORPTION', 0.7, 'total-ng', (ngr,), _groups(ngr)),
            ('PRODUCTION', 0.7, 'total-ng', (ngr,), _groups(ngr)),
            ('FLUX', 0.7, 'total-ng', (ngr,), _groups(ngr)),
            ('SURFFLUX', which in ('SURFFLUX', 'both'), 'surfflux',
             (ngr, nsurf), surf),
            ('CURRENT', which in ('CURRENT', 'both'), 'current',
             (ngr, nsurf, 2), surf + direc)):
        if rng.random() < prob:
            arr = tru.nums(shape or (1,),
                           tru.fdt() if kind == 'scalar' else 'f4')
            grp[name] = arr
            tru.add(kind, arr, (out, zone, None, name.lower()), shape, bins,
                    _std(out, zone, name))
    if rng.random() < 0.5:
        _write_locals(grp, tru, out, zone)


def _write_zone(grp, tru, out, zone, ngr):
    rng = tru.rng
    isos = rng.sample(ISOTOPES, rng.choice((0, 0, 1, 2, 3)))
    tru.stats['niso'] = max(tru.stats['niso'], len(isos))
    grp['NISOT'] = _i4(len(isos))
    if rng.random() < 0.85:
        arr = tru.nums((ngr,), 'f4')
        grp['FLUX'] = arr
        tru.add('zone-flux', arr, (out, zone, None, 'flux'), (ngr,),
                _groups(ngr), _std(out, zone, 'FLUX'))
    if isos:
        grp['ISOTOPE'] = _pad(isos)
        conc = tru.nums((len(isos),), 'f8')
        grp['CONCEN'] = conc
        for i, iso in enumerate(isos):
            tru.add('concentration', conc[i:i + 1],
                    (out, zone, iso, 'concentration'), (), [],
                    _std(out, zone, 'concentration', iso))
            _write_rates(grp.create_group(iso), tru, out, zone, iso, ngr)
    if rng.random() < 0.85:
        _write_rates(grp.create_group('macro'), tru, out, zone, 'macro', ngr)


def _write_standard(hfile, tru):
    rng = tru.rng
    nout = rng.randint(1, 3)
    ngeo = rng.randint(1, nout)
    ggrp = hfile.create_group('geometry')
    ggrp['NGEO'] = _i4(ngeo)
    for igeo in range(ngeo):
        names = rng.sample(ZONES, rng.randint(1, 4))
        vols = tru.nums((len(names),), tru.fdt())
        grp = ggrp.create_group(f'geometry_{igeo}')
        grp['NZONE'] = _i4(len(names))
        grp['VOLUME'] = vols
        grp['ZONENAME'] = _pad(names)
        tru.geom[f'geometry_{igeo}'] = list(zip(names, vols))
        tru.stats['nzones'] = max(tru.stats['nzones'], len(names))
    info = hfile.create_group('info')
    if rng.random() < 0.5:
        info['COMMENT'] = np.array([b'synthetic case'])
    info['NOUT'] = _i4(nout)
    tru.stats['nout'] = nout
    for iout in range(nout):
        out = f'output_{iout}'
        ngr = rng.choice((1, 2, 3, 7))
        gid = f'geometry_{rng.randrange(ngeo)}'
        sub = info.create_group(out)
        sub['GEOMID'] = np.array([gid.encode()])
        sub['NG'] = _i4(ngr)
        if rng.random() < 0.5:
            sub['COMMENT'] = np.array([b'core'])
        tru.info[out] = (gid, ngr)
        ogrp = hfile.create_group(out)
        _write_totaloutput(ogrp.create_group('totaloutput'), tru, out, ngr)
        for zone, _vol in tru.geom[gid]:
            _write_zone(ogrp.create_group(zone), tru, out, zone, ngr)


def _write_user(hfile, tru):
    '''The "user values" model: info without NOUT, local values in output.'''
    tru.stats['model'] = 'user'
    info = hfile.create_group('info')
    for key, val in (('COMMENT', b'Simplest_API'), ('FORMAT', b'Simple'),
                     ('VERSION', b'1.0')):
        if tru.rng.random() < 0.7:
            info[key] = np.array([val])
    _write_locals(hfile.create_group('output'), tru, 'output', None)


# --------------------------------------------------------------------------
# comparisons

def _bits(one, two):
    '''Same shape, dtype and bytes (NaN == NaN, 0-d array == scalar).'''
    one, two = np.asarray(one), np.asarray(two)
    return (one.shape == two.shape and one.dtype == two.dtype
            and one.tobytes() == two.tobytes())


def _labels(item):
    return (item.get('output'), item.get('zone'), item.get('isotope'),
            item.get('result_name'))


def _show(arr, num=6):
    arr = np.asarray(arr)
    return f'{arr.ravel()[:num].tolist()} {arr.dtype} shape {arr.shape}'


def _bins_repr(bins):
    return [(key, np.asarray(val).tolist()) for key, val in bins.items()]


def _ds_diffs(rds, pds):
    '''Aspects in which the picked dataset differs from the reader's one.'''
    out = []
    rval, pval = np.asarray(rds.value), np.asarray(pds.value)
    if not _bits(rval.ravel(), pval.ravel()):
        out.append(('value', f'{_show(rval)} vs {_show(pval)}'))
    elif rval.shape != pval.shape:
        out.append(('shape', f'{rval.shape} vs {pval.shape}'))
    rerr, perr = np.asarray(rds.error), np.asarray(pds.error)
    if not _bits(rerr.ravel(), perr.ravel()) or (
            rval.shape == pval.shape and rerr.shape != perr.shape):
        out.append(('error', f'{_show(rerr, 4)} vs {_show(perr, 4)}'))
    if list(rds.bins) != list(pds.bins) or not all(
            _bits(rds.bins[key], pds.bins[key]) for key in rds.bins):
        out.append(('bins', f'{_bins_repr(rds.bins)} vs '
                            f'{_bins_repr(pds.bins)}'))
    out.extend((att, f'{getattr(rds, att)!r} vs {getattr(pds, att)!r}')
               for att in ('what', 'name')
               if getattr(rds, att) != getattr(pds, att))
    return out


def _compare_picks(picker, rds, labels, picks, rec, case, counter, tag=''):
    '''Every applicable Picker call against the reader's dataset.'''
    for how, kwargs in picks:
        rec.count(counter)
        func = {'std': picker.pick_standard_value,
                'user': picker.pick_user_value,
                'index': picker.pick_value_from_index}[how]
        try:
            pds = func(**kwargs)
        except Exception as err:  # pylint: disable=broad-except
            rec.violation(f'ap3-picker-raised-{type(err).__name__}{tag}',
                          f'{how} {kwargs} for reader item {labels}: {err!r}',
                          case)
            continue
        for aspect, detail in _ds_diffs(rds, pds):
            if aspect == 'shape' and how == 'user' and \
                    kwargs.get('zone') == 'localvalue' and \
                    np.shape(rds.value) == () and \
                    np.shape(pds.value) == (1,):
                # the one mechanism recorded in known_findings.json: a
                # one-element dataset of a 'localvalue' group
                aspect = 'shape-scalar-vs-one-element-localvalue'
            rec.violation(f'ap3-picker-{aspect}-differs-from-reader',
                          f'{labels} picked with {how} {kwargs}: reader vs '
                          f'picker {detail}', case)


def _check_error(dset, labels, errval, rec, case):
    '''Error array: shape of the value, filled with the error value.'''
    err, val = np.asarray(dset.error), np.asarray(dset.value)
    good = np.isnan(err).all() if errval is None else (err == errval).all()
    if err.shape != val.shape or not good:
        rec.violation('ap3-error-wrong',
                      f'{labels}: error_value={errval} but error is '
                      f'{_show(err, 4)} for value of shape {val.shape}', case)


def _check_truth_item(sto, item, errval, rec, case):
    '''One stored array against the browser item holding its numbers.'''
    dset = item['results']
    if _labels(item) != sto['labels']:
        rec.violation('ap3-labels-wrong',
                      f'{sto["kind"]} stored under (output, zone, isotope, '
                      f'result_name)={sto["labels"]} is returned with labels '
                      f'{_labels(item)} (first number '
                      f'{sto["arr"].ravel()[0]!r})', case)
    val = np.asarray(dset.value)
    want = sto['arr'].reshape(sto['shape'])
    # a (1,) dataset of the localvalue group: scalar or (1,) both accepted
    lenient = sto['kind'] == 'localvalue-group' and sto['arr'].shape == (1,)
    if not (_bits(val, want) or (lenient and _bits(val, want.reshape(())))):
        rec.violation('ap3-reader-value-differs',
                      f'{sto["kind"]} {sto["labels"]}: stored '
                      f'{want.tolist()} {want.dtype} shape {want.shape}, '
                      f'reader gives {val.tolist()} {val.dtype} shape '
                      f'{val.shape}', case)
    _check_error(dset, sto['labels'], errval, rec, case)
    exp = sto['bins']
    if list(dset.bins) != [key for key, _ in exp] or not all(
            np.array_equal(np.asarray(dset.bins[key]), arr)
            for key, arr in exp):
        rec.violation('ap3-bins-wrong',
                      f'{sto["kind"]} {sto["labels"]}: documented bins '
                      f'{[(k, a.tolist()) for k, a in exp]}, got '
                      f'{_bins_repr(dset.bins)}', case)


def _check_globals(browser, tru, rec, case):
    '''info: geom_id, ngroups; geometry: zone name -> volume (both empty in
    the user model).'''
    info = browser.globals.get('info')
    geom = browser.globals.get('geometry')
    try:
        good = (set(info) == set(tru.info) and set(geom) == set(tru.geom)
                and all(info[out]['geom_id'] == gid
                        and int(info[out]['ngroups']) == ngr
                        for out, (gid, ngr) in tru.info.items())
                and all(set(geom[gid]) == {nam for nam, _ in zones}
                        and all(float(geom[gid][nam]) == float(vol)
                                for nam, vol in zones)
                        for gid, zones in tru.geom.items()))
    except (KeyError, TypeError, ValueError) as err:
        good = False
        info = f'{info!r} ({err!r})'
    if not good:
        rec.violation('ap3-globals-wrong',
                      f'stored info {tru.info} geometry {tru.geom}; browser '
                      f'globals info {info!r} geometry {geom!r}', case)


def _open(path, errval, tag, msg, rec, case):
    '''Browser and Picker of `path`, or None if the reader raises.'''
    from valjean.eponine.apollo3.hdf5_reader import Reader
    from valjean.eponine.apollo3.hdf5_picker import Picker
    kws = {} if errval is None else {'error_value': errval}
    try:
        return Reader(path, **kws).to_browser(), Picker(path, **kws)
    except Exception as err:  # pylint: disable=broad-except
        rec.violation(f'ap3-reader-raised-{type(err).__name__}{tag}',
                      f'Reader raised {err!r} on {msg}', case)
        return None


def _check_file(path, tru, errval, first, rec, case):
    tag = tru.tag()
    opened = _open(path, errval, tag, 'a file following the documented '
                   f'layout: {tru.stats}, rare documented features '
                   f'{sorted(tru.rare)}', rec, case)
    if opened is None:
        return
    browser, picker = opened
    num2id = {float(num): i for i, sto in enumerate(tru.items)
              for num in sto['arr'].ravel()}
    found = {}
    for item in browser.content:
        val = np.asarray(item['results'].value)
        ids = ({num2id.get(float(num)) for num in val.ravel()}
               if val.dtype.kind == 'f' else {None})
        if len(ids) != 1 or None in ids:
            rec.violation(f'ap3-unexpected-item{tag}',
                          f'browser item {_labels(item)} holds numbers that '
                          f'were not stored as one result: {_show(val, 8)}',
                          case)
            continue
        found.setdefault(ids.pop(), []).append(item)
    try:
        for i, sto in enumerate(tru.items):
            items = found.get(i, [])
            if not items:
                rec.violation(f'ap3-item-missing-{sto["kind"]}{tag}',
                              f'{sto["kind"]} stored at {sto["labels"]} '
                              f'(numbers {sto["arr"].ravel()[:4].tolist()}) '
                              f'is in no browser item; file: {tru.stats}',
                              case)
                continue
            if len(items) > 1:
                rec.violation('ap3-duplicate-item',
                              f'{sto["labels"]} found in {len(items)} items: '
                              f'{[_labels(it) for it in items]}', case)
            _check_truth_item(sto, items[0], errval, rec, case)
            _compare_picks(picker, items[0]['results'], sto['labels'],
                           sto['picks'], rec, case, 'ap3_picker_comparisons',
                           tag)
    finally:
        picker.close()
    if first:
        rec.count('ap3_reader_items', len(browser.content))
        rec.count('ap3_arrays_found', len(found))
        _check_globals(browser, tru, rec, case)


_SAME_PATH = []


def cleanup():
    '''Remove the directory of the re-used path (shards leave through
    os._exit: the caller does this explicitly).'''
    while _SAME_PATH:
        shutil.rmtree(_SAME_PATH.pop(), ignore_errors=True)


def synthetic_case(seed, idx, tier, rec, previous=False):
    '''Generate ONE random HDF5 file following the documented layout from a
    known ground truth, read it back with the Reader and every applicable
    Picker call (error value NaN, then 0) and compare with the ground truth.'''
    rng = core.rng_for(seed, 'C10', 'ap3', idx)
    case = {'mode': 'ap3', 'seed': seed, 'idx': idx, 'tier': tier}
    if previous and idx > 0:
        # (replay) the file that the same process read at this path before
        synthetic_case(seed, idx - 1, tier, core.Recorder(), previous=False)
    tru = _Truth(rng)
    tmpdir = tempfile.mkdtemp(prefix='vf-ap3-', dir=core.fast_tmp())
    try:
        # two cases out of three are written to the path that the previous
        # case of this process used: the same job run again, its output file
        # rewritten and opened by new Reader / Picker objects
        samepath = idx % 3 != 0
        path = os.path.join(tmpdir, f'case{idx}.hdf')
        if samepath:
            if not _SAME_PATH:
                _SAME_PATH.append(tempfile.mkdtemp(prefix='vf-ap3-same-',
                                                   dir=core.fast_tmp()))
                atexit.register(cleanup)
            path = os.path.join(_SAME_PATH[0], 'results.hdf')
            if os.path.exists(path):
                rec.count('ap3_files_rewritten_at_the_same_path')
        with h5py.File(path, 'w') as hfile:
            if rng.random() < 0.2:
                _write_user(hfile, tru)
            else:
                _write_standard(hfile, tru)
        rec.count('ap3_files_generated')
        rec.count('ap3_arrays_stored', len(tru.items))
        sts = tru.stats
        rec.seen((sts['model'], sts['nout'], sts['nzones'], sts['niso'],
                  sts['aniso'], sts['surf'], sts['locals']))
        if idx % 200 == 0:
            rec.sample({'idx': idx, 'file': sts, 'arrays': len(tru.items),
                        'numbers': tru.knt, 'rare': sorted(tru.rare),
                        'first_labels': [list(s['labels'])
                                         for s in tru.items[:5]]})
        _check_file(path, tru, None, True, rec, case)
        _check_file(path, tru, 0, False, rec, case)
    finally:
        shutil.rmtree(tmpdir, ignore_errors=True)


# --------------------------------------------------------------------------
# shipped files

def _walk_locals(grp, out, zone, res):
    if 'LOCALNAME' in grp and 'LOCALVALUE' in grp:
        vals = grp['LOCALVALUE'][...]
        for i, raw in enumerate(grp['LOCALNAME'][...]):
            nam = raw.decode('utf-8').strip()
            res.append(((out, zone, None, nam), vals[i],
                        _loc(out, zone, nam, i)))
    for nam, dat in grp.get('localvalue', {}).items():
        if nam != 'LOCALNAME' and isinstance(dat, h5py.Dataset):
            res.append(((out, zone, None, nam), dat[...],
                        _loc(out, zone, nam)))


def _walk_zone(zgrp, out, zone, res):
    for key, dat in zgrp.items():
        if key in ('NISOT', 'ISOTOPE'):
            continue
        if key == 'CONCEN':
            for raw, conc in zip(zgrp['ISOTOPE'][...], dat[...]):
                iso = raw.decode('utf-8').strip()
                res.append(((out, zone, iso, 'concentration'), conc,
                            _std(out, zone, 'concentration', iso)))
        elif isinstance(dat, h5py.Group):       # macro or an isotope
            for rkey, rdat in dat.items():
                if isinstance(rdat, h5py.Dataset):
                    res.append(((out, zone, key, rkey.lower()), rdat[...],
                                _std(out, zone, rkey, key)))
        else:
            res.append(((out, zone, None, key.lower()), dat[...],
                        _std(out, zone, key)))


def _walk_expected(hfile):
    '''Datasets that the documented model calls results: list of (labels,
    stored array, picker calls).'''
    res = []
    standard = 'NOUT' in hfile['info']
    for out, ogrp in hfile.items():
        if not standard and out != 'info':
            _walk_locals(ogrp, out, None, res)
        if not standard or not out.startswith('output_'):
            continue
        for zone, zgrp in ogrp.items():
            if zone != 'totaloutput':
                _walk_zone(zgrp, out, zone, res)
                continue
            for key, dat in zgrp.items():
                if isinstance(dat, h5py.Dataset) and key not in NOT_RESULTS:
                    res.append(((out, zone, None, key.lower()), dat[...],
                                _std(out, zone, key)))
            _walk_locals(zgrp, out, zone, res)
    return res


def _shipped_file(path, errval, rec, case):
    with h5py.File(path, 'r') as hfile:
        expected = _walk_expected(hfile)
    opened = _open(path, errval, '', 'shipped file', rec, case)
    if opened is None:
        return
    browser, picker = opened
    if len(browser.content) != len(expected):
        rec.violation('ap3-shipped-item-count-differs',
                      f'{len(browser.content)} browser items for '
                      f'{len(expected)} result datasets in the file', case)
    exp = {}
    for labels, arr, picks in expected:
        exp.setdefault(labels, []).append((arr, picks))
    seen = set()
    try:
        for item in browser.content:
            rec.count('ap3_shipped_items')
            labels = _labels(item)
            if len(exp.get(labels, [])) != 1 or labels in seen:
                rec.violation('ap3-unexpected-item',
                              f'browser item {labels} corresponds to '
                              f'{len(exp.get(labels, []))} datasets of the '
                              f'file (seen before: {labels in seen})', case)
                continue
            seen.add(labels)
            arr, picks = exp[labels][0]
            dset = item['results']
            if not _bits(np.asarray(dset.value).ravel(),
                         np.asarray(arr).ravel()):
                rec.violation('ap3-reader-value-differs',
                              f'{labels}: h5py gives {_show(arr)}, reader '
                              f'{_show(dset.value)}', case)
            _check_error(dset, labels, errval, rec, case)
            _compare_picks(picker, dset, labels, picks, rec, case,
                           'ap3_shipped_picker_comparisons')
    finally:
        picker.close()
    for labels in exp:
        if labels not in seen:
            rec.violation('ap3-item-missing', f'dataset {labels} of the file '
                          'is in no browser item', case)


def shipped_differential(rec):
    '''Reader vs Picker vs a plain h5py walk on the six shipped example
    files, for every browser item, with error value NaN and 0.'''
    ddir = os.path.join(core.REPO, 'tests', 'eponine', 'apollo3', 'data')
    for fname in sorted(os.listdir(ddir)):
        if fname.endswith('.hdf'):
            case = {'mode': 'ap3-shipped', 'file': fname}
            rec.count('ap3_shipped_files')
            _shipped_file(os.path.join(ddir, fname), None, rec, case)
            _shipped_file(os.path.join(ddir, fname), 0, rec, case)
