'''C15 -- generated tasks correspond one-to-one to what was asked for.

Monitor: histories of requests to the argument-injection wrappers (``Use``,
``using``, ``map``, stacked wrappers, ``task_stats`` / ``test_stats``) and to
``RunTaskFactory.make`` are replayed against a reference dictionary
*signature of the request -> task returned*: identical requests must be
answered with the same task, requests that differ in function, injected task,
key, arguments or dependencies must never be answered with the same task
(unless an explicit error is raised), and every returned task is executed on a
prepared environment and must behave as its own request says (the wrapper's
function applied to its own injections; its own command line).  Job
collection is compared with a plain transitive closure.'''
import os
import shutil
import tempfile

from vf import core

PROP = 'C15'
LEVEL = 'exploration'
RULE = ('histories of 2-12 requests drawn from small pools: same-named '
        'functions, lambdas, functools.partial objects; three injected tasks; '
        'keys result / other / None; positional and keyword injection; hard '
        'and soft dependencies; serialize on/off; stacked wrappers, using(), '
        'map(); task_stats / test_stats with equal names; RunTaskFactory.make '
        'with and without a name, extra arguments, format keywords, '
        'dependencies, soft dependencies and subprocess arguments over 1-2 '
        'factories; job task lists over random hard/soft graphs with and '
        'without duplicated names; distinct = distinct (request kinds in the '
        'history, which pairs of requests differ in what)')
DECIDING = ['use_requests', 'factory_requests', 'pairs_compared',
            'tasks_executed', 'collections_checked']
ASSUMPTIONS = ['functions are compared by identity; two wrappers around the '
               'same function object with the same injections are identical '
               'requests',
               'names of injected tasks and functions carry the history '
               'number so that a witness replays in a fresh process; '
               'interference between histories is therefore not exercised']
SHARD_TIMEOUT = {'quick': 900, 'thorough': 3000}


def plan(tier, seed):
    return core.std_plan(PROP, tier, seed, quick=12000, thorough=200000)


# --------------------------------------------------------------------------
# argument injection

def make_funcs(hid):
    '''Pool of wrapped callables; each returns a value that identifies the
    function and everything it was given.'''
    import functools
    pool = []

    def factory(tag, name):
        def compute(*args, **kwargs):
            return (tag, list(args), sorted(kwargs.items()))
        compute.__name__ = name
        compute.__qualname__ = name
        return compute
    pool.append(('same1', factory(f'same1_{hid}', f'compute_h{hid}')))
    pool.append(('same2', factory(f'same2_{hid}', f'compute_h{hid}')))
    pool.append(('other', factory(f'other_{hid}', f'other_h{hid}')))
    lam1 = lambda *a, **k: ('lam1', list(a), sorted(k.items()))  # noqa: E731
    lam2 = lambda *a, **k: ('lam2', list(a), sorted(k.items()))  # noqa: E731
    pool.append(('lam1', lam1))
    pool.append(('lam2', lam2))
    base = factory(f'part_{hid}', f'partbase_h{hid}')
    for i in (1, 2):
        part = functools.partial(base, extra=i)
        functools.update_wrapper(part, base)
        pool.append((f'partial{i}', part))
    return pool


def make_inj_tasks(hid):
    from valjean.cosette.task import DelayTask
    return [DelayTask(f'inj{i}_h{hid}', 0) for i in range(3)]


def prepared_env(tasks):
    from valjean.cosette.env import Env
    from valjean.cosette.task import TaskStatus
    env = Env()
    for task in tasks:
        env[task.name] = {'status': TaskStatus.DONE,
                          'result': ('R', task.name),
                          'other': ('O', task.name)}
    return env


def value_of(env, task, key):
    if key is None:
        return (task.name, env[task.name])
    return env[task.name][key]


def gen_use_request(rng, funcs, tasks):
    '''One request: a list of injection layers (innermost first).'''
    fname, func = rng.choice(funcs)
    nlayers = rng.choice([1, 1, 1, 2, 3])
    layers = []
    used_kw = set()
    for _ in range(nlayers):
        kwarg = rng.choice([None, None, 'a', 'b'])
        if kwarg in used_kw:
            kwarg = None
        if kwarg:
            used_kw.add(kwarg)
        layers.append({'task': rng.randrange(len(tasks)),
                       'key': rng.choice(['result', 'result', 'other',
                                          None]),
                       'kwarg': kwarg})
    return {'func': fname, 'layers': layers,
            'deps_type': rng.choice(['hard', 'hard', 'soft']),
            'serialize': rng.random() < 0.15,
            'via': rng.choice(['from_func', 'from_func', 'using', 'ctor'])}


def use_signature(req):
    args = tuple((l['task'], l['key']) for l in req['layers']
                 if l['kwarg'] is None)
    kwargs = tuple(sorted((l['kwarg'], l['task'], l['key'])
                          for l in req['layers'] if l['kwarg']))
    return (req['func'], args, kwargs, req['deps_type'], req['serialize'])


def differs_in(sig_a, sig_b):
    names = ('function', 'positional injections', 'keyword injections',
             'dependency type', 'serialize')
    return [n for n, x, y in zip(names, sig_a, sig_b) if x != y]


def build_use(req, funcs, tasks, cache=None):
    '''Build the Use object the way the request says.  `cache`: intermediate
    wrappers of earlier requests of the history (func, layers so far) -> Use;
    a stack of wrappers that starts like an earlier one is built on top of
    the earlier wrapper object (which is therefore decorated several times).'''
    from valjean.cosette.use import Use, using
    func = dict(funcs)[req['func']]
    via = req['via']
    if via == 'ctor' or req['deps_type'] != 'hard' or req['serialize']:
        inj_args = [(tasks[l['task']], l['key']) for l in req['layers']
                    if l['kwarg'] is None]
        inj_kwargs = {l['kwarg']: (tasks[l['task']], l['key'])
                      for l in req['layers'] if l['kwarg']}
        if len(req['layers']) == 1 and via != 'ctor':
            lay = req['layers'][0]
            return Use.from_func(func=func, task=tasks[lay['task']],
                                 key=lay['key'], kwarg=lay['kwarg'],
                                 deps_type=req['deps_type'],
                                 serialize=req['serialize'])
        return Use(inj_args=inj_args, inj_kwargs=inj_kwargs, wrapped=func,
                   deps_type=req['deps_type'], serialize=req['serialize'])
    use = func
    prefix = (req['func'],)
    for lay in req['layers']:
        prefix += ((lay['task'], lay['key'], lay['kwarg']),)
        if cache is not None and prefix in cache:
            use = cache[prefix]
            continue
        if via == 'using':
            use = using(task=tasks[lay['task']], key=lay['key'],
                        kwarg=lay['kwarg'])(use)
        else:
            use = Use.from_func(func=use, task=tasks[lay['task']],
                                key=lay['key'], kwarg=lay['kwarg'])
        if cache is not None:
            cache[prefix] = use
    return use


def expected_result(req, funcs, tasks, env):
    func = dict(funcs)[req['func']]
    pos = [l for l in req['layers'] if l['kwarg'] is None]
    args = [value_of(env, tasks[l['task']], l['key']) for l in reversed(pos)]
    kwargs = {l['kwarg']: value_of(env, tasks[l['task']], l['key'])
              for l in req['layers'] if l['kwarg']}
    return func(*args, **kwargs)


def use_history(seed, idx, rec):
    # pylint: disable=too-many-locals,too-many-branches,too-many-statements
    rng = core.rng_for(seed, PROP, 'use', idx)
    case = {'seed': seed, 'idx': idx, 'mode': 'use'}
    hid = f'{seed}_{idx}'
    funcs = make_funcs(hid)
    tasks = make_inj_tasks(hid)
    env = prepared_env(tasks)
    root = tempfile.mkdtemp(prefix='vf-c15-', dir=core.fast_tmp())
    from valjean.config import Config
    config = Config()
    config.set('path', 'output-root', root)
    seen = {}       # signature -> (task, request)
    by_task = {}    # id(task) -> signature
    kinds = set()
    try:
        # a small pool of requests so that repetitions happen
        pool = [gen_use_request(rng, funcs, tasks)
                for _ in range(rng.randint(2, 6))]
        # requests that extend one another (same function, same first layers)
        for req in list(pool):
            if rng.random() < 0.4 and len(req['layers']) < 3:
                longer = dict(req)
                longer['layers'] = req['layers'] + [
                    {'task': rng.randrange(len(tasks)),
                     'key': rng.choice(['result', 'other', None]),
                     'kwarg': None}]
                pool.append(longer)
        reuse = rng.random() < 0.5
        cache = {}
        if reuse:
            rec.count('histories_reusing_intermediate_wrappers')
        for step in range(rng.randint(2, 12)):
            req = dict(rng.choice(pool))
            if rng.random() < 0.3:
                req['via'] = rng.choice(['from_func', 'using', 'ctor'])
            sig = use_signature(req)
            rec.count('use_requests')
            try:
                task = build_use(req, funcs, tasks,
                                 cache if reuse else None).get_task()
            except (ValueError, TypeError) as err:
                rec.count('use_requests_refused')
                rec.count('refused.' + type(err).__name__)
                continue
            if sig in seen:
                rec.count('pairs_compared')
                if seen[sig][0] is not task:
                    rec.violation('identical-requests-different-tasks',
                                  f'request {req} answered with another '
                                  f'task than the first time '
                                  f'({seen[sig][0].name} / {task.name})',
                                  case)
            else:
                other = by_task.get(id(task))
                rec.count('pairs_compared')
                if other is not None and other != sig:
                    what = differs_in(other, sig)
                    rec.violation('requests-share-one-task-differing-in-'
                                  + what[0].replace(' ', '-'),
                                  f'step {step}: request {req} was answered '
                                  f'with the task {task.name!r} created for '
                                  f'{seen[other][1]} (they differ in '
                                  f'{what})', case)
                seen[sig] = (task, req)
                by_task.setdefault(id(task), sig)
            kinds.add((req['via'], len(req['layers']), req['deps_type']))
            # behaviour of the returned task
            want = expected_result(req, funcs, tasks, env)
            injected = {tasks[l['task']] for l in req['layers']}
            try:
                update, status = task.do(env, config)
                got = update[task.name]['result']
            except Exception as err:  # pylint: disable=broad-except
                rec.violation('task-raised-' + type(err).__name__,
                              f'{req}: {err!r}', case)
                continue
            rec.count('tasks_executed')
            if got != want or getattr(status, 'name', '') != 'DONE':
                rec.violation('task-does-not-run-its-own-request',
                              f'request {req}: task {task.name!r} returned '
                              f'{got!r}, the request means {want!r}', case)
            hard = set(task.depends_on)
            soft = set(task.soft_depends_on)
            exp_hard = injected if req['deps_type'] == 'hard' else set()
            exp_soft = injected if req['deps_type'] == 'soft' else set()
            if hard != exp_hard or soft != exp_soft:
                rec.violation('task-dependencies-differ-from-request',
                              f'request {req}: hard '
                              f'{sorted(t.name for t in hard)} soft '
                              f'{sorted(t.name for t in soft)}', case)
        # tasks obtained earlier still do what their request says
        for sig, (task, req) in seen.items():
            want = expected_result(req, funcs, tasks, env)
            injected = {tasks[l['task']] for l in req['layers']}
            try:
                update, status = task.do(env, config)
                got = update[task.name]['result']
            except Exception as err:  # pylint: disable=broad-except
                rec.violation('earlier-task-raised-' + type(err).__name__,
                              f'{req}: {err!r}', case)
                continue
            rec.count('earlier_tasks_executed_again')
            deps = set(task.depends_on) | set(task.soft_depends_on)
            if got != want or deps != injected:
                rec.violation('earlier-task-changed-by-later-requests',
                              f'request {req}: task {task.name!r} now '
                              f'returns {got!r} (the request means {want!r}),'
                              f' depends on {sorted(t.name for t in deps)}',
                              case)
        # map()
        if rng.random() < 0.5 and seen:
            base_req = rng.choice([r for _, r in seen.values()])
            base_use = build_use(base_req, funcs, tasks)
            (_, g_1), (_, g_2) = rng.sample(funcs, 2)
            rec.count('use_requests', 2)
            m_1 = base_use.map(g_1).get_task()
            m_2 = base_use.map(g_2).get_task()
            rec.count('pairs_compared')
            if m_1 is m_2 and g_1 is not g_2:
                rec.violation('requests-share-one-task-differing-in-function',
                              f'map({g_1.__name__}) and map({g_2.__name__}) '
                              f'of {base_req} share the task {m_1.name!r}',
                              case)
            base_task = base_use.get_task()
            for mapped, fun in ((m_1, g_1), (m_2, g_2)):
                menv = prepared_env(tasks)
                menv[base_task.name] = {'result': ('BASE', base_task.name)}
                try:
                    upd, _ = mapped.do(menv, config)
                    got = upd[mapped.name]['result']
                except Exception as err:  # pylint: disable=broad-except
                    rec.violation('task-raised-' + type(err).__name__,
                                  f'map: {err!r}', case)
                    continue
                rec.count('tasks_executed')
                if got != fun(('BASE', base_task.name)):
                    rec.violation('task-does-not-run-its-own-request',
                                  f'map({fun.__name__}) on {base_req}: got '
                                  f'{got!r}', case)
        # task_stats / test_stats with equal names
        if rng.random() < 0.4:
            from valjean.gavroche.diagnostics.stats import (task_stats,
                                                            test_stats)
            name = f'summary_h{hid}'
            rec.count('use_requests', 2)
            one = task_stats(name=name, tasks=tasks[:2])
            two = rng.choice([
                lambda: test_stats(name=name, tasks=tasks[:2]),
                lambda: task_stats(name=name, tasks=tasks[1:]),
                lambda: task_stats(name=name, tasks=tasks[:2],
                                   labels={'k': 'v'})])()
            t_1 = next(iter(one.depends_on))
            t_2 = next(iter(two.depends_on))
            rec.count('pairs_compared')
            if t_1 is t_2:
                rec.violation('requests-share-one-task-differing-in-'
                              'function', f'two different statistics '
                              f'requests named {name!r} share the task '
                              f'{t_1.name!r}', case)
        rec.seen(('use', sorted(kinds)))
        if idx % 800 == 0:
            rec.sample({'mode': 'use', 'pool': pool})
    finally:
        shutil.rmtree(root, ignore_errors=True)


# --------------------------------------------------------------------------
# run-task factories

def gen_make_request(rng):
    return {'factory': rng.choice([0, 0, 1]),
            'name': rng.choice([None, None, 'named', 'named2']),
            'extra_args': rng.choice([[], [], ['x'], ['y'], ['x', 'y']]),
            'kwargs': rng.choice([{}, {}, {'food': 'egg'},
                                  {'food': 'spam'}]),
            # (dependencies are sets: their order in the call is no part of
            # the request)
            'deps': rng.choice([[], [], [0], [1], [0, 1], [1, 0]]),
            'soft_deps': rng.choice([[], [], [2], [1], [1, 2], [2, 1]]),
            'subprocess_args': rng.choice([{}, {}, {'env': {'VFVAR': 'one'}},
                                           {'env': {'VFVAR': 'two'}}])}


def make_signature(req):
    return (req['factory'], req['name'], tuple(req['extra_args']),
            tuple(sorted(req['kwargs'].items())), tuple(sorted(req['deps'])),
            tuple(sorted(req['soft_deps'])),
            tuple(sorted((k, tuple(sorted(v.items())))
                         for k, v in req['subprocess_args'].items())))


def make_differs(sig_a, sig_b):
    names = ('factory', 'name', 'extra arguments', 'keywords',
             'dependencies', 'soft dependencies', 'subprocess arguments')
    return [n for n, x, y in zip(names, sig_a, sig_b) if x != y]


def factory_history(seed, idx, rec):
    # pylint: disable=too-many-locals,too-many-branches
    from valjean.cosette.run import RunTaskFactory
    from valjean.cosette.env import Env
    from valjean.config import Config
    rng = core.rng_for(seed, PROP, 'factory', idx)
    case = {'seed': seed, 'idx': idx, 'mode': 'factory'}
    hid = f'{seed}_{idx}'
    tasks = make_inj_tasks(hid)
    root = tempfile.mkdtemp(prefix='vf-c15f-', dir=core.fast_tmp())
    config = Config()
    config.set('path', 'output-root', root)
    script = 'echo "$0 {food} [$VFVAR] $@"'
    factories = [
        RunTaskFactory.from_executable('sh', name=f'fac0_h{hid}',
                                       default_args=['-c', script, 'F0'],
                                       food='bacon'),
        RunTaskFactory.from_executable('sh', name=f'fac1_h{hid}',
                                       default_args=['-c', script, 'F1'],
                                       food='bacon')]
    seen, by_task = {}, {}
    try:
        pool = [gen_make_request(rng) for _ in range(rng.randint(2, 6))]
        # requests that differ from another one only by the *role* of the
        # same tasks (hard here, soft there), or only by one field
        for req in list(pool):
            if rng.random() < 0.5 and (req['deps'] or req['soft_deps']):
                twin = dict(req)
                twin['deps'], twin['soft_deps'] = req['soft_deps'], \
                    req['deps']
                pool.append(twin)
            if rng.random() < 0.3:
                twin = dict(req)
                field = rng.choice(['extra_args', 'kwargs',
                                    'subprocess_args', 'deps'])
                twin[field] = gen_make_request(rng)[field]
                pool.append(twin)
        for step in range(rng.randint(2, 14)):
            req = rng.choice(pool)
            sig = make_signature(req)
            rec.count('factory_requests')
            try:
                task = factories[req['factory']].make(
                    name=req['name'], extra_args=list(req['extra_args']),
                    subprocess_args=dict(req['subprocess_args']),
                    deps=[tasks[i] for i in req['deps']],
                    soft_deps=[tasks[i] for i in req['soft_deps']],
                    **req['kwargs'])
            except ValueError:
                rec.count('factory_requests_refused')
                continue
            rec.count('pairs_compared')
            if sig in seen:
                if seen[sig][0] is not task:
                    rec.violation('identical-requests-different-tasks',
                                  f'make({req}) answered with another task',
                                  case)
            else:
                other = by_task.get(id(task))
                if other is not None and other != sig:
                    what = make_differs(other, sig)
                    rec.violation('factory-requests-share-one-task-'
                                  'differing-in-' + what[0].replace(' ', '-'),
                                  f'step {step}: make({req}) was answered '
                                  f'with the task {task.name!r} created for '
                                  f'make({seen[other][1]}) (they differ in '
                                  f'{what})', case)
                seen[sig] = (task, req)
                by_task.setdefault(id(task), sig)
            # behaviour
            food = req['kwargs'].get('food', 'bacon')
            var = req['subprocess_args'].get('env', {}).get('VFVAR', '')
            tag = f'F{req["factory"]}'
            want = ' '.join([tag, food, f'[{var}]']
                            + list(req['extra_args'])).rstrip() + '\n'
            if not req['extra_args']:
                want = f'{tag} {food} [{var}] \n'
            try:
                update, status = task.do(Env(), config)
                with open(update[task.name]['stdout']) as fil:
                    got = fil.read()
            except Exception as err:  # pylint: disable=broad-except
                rec.violation('task-raised-' + type(err).__name__,
                              f'make({req}): {err!r}', case)
                continue
            rec.count('tasks_executed')
            if got != want or getattr(status, 'name', '') != 'DONE':
                rec.violation('task-does-not-run-its-own-request',
                              f'make({req}): task {task.name!r} printed '
                              f'{got!r}, the request means {want!r}', case)
            hard = {t.name for t in task.depends_on}
            soft = {t.name for t in task.soft_depends_on}
            if hard != {tasks[i].name for i in req['deps']} or \
                    soft != {tasks[i].name for i in req['soft_deps']}:
                rec.violation('task-dependencies-differ-from-request',
                              f'make({req}): hard {sorted(hard)} soft '
                              f'{sorted(soft)}', case)
        rec.seen(('factory', sorted({(r['name'] is None, bool(r['deps']),
                                      bool(r['subprocess_args']))
                                     for r in pool})))
        if idx % 800 == 0:
            rec.sample({'mode': 'factory', 'pool': pool})
    finally:
        shutil.rmtree(root, ignore_errors=True)


# --------------------------------------------------------------------------
# job collection

def collection_case(seed, idx, rec):
    # pylint: disable=too-many-locals
    from valjean.cosette.task import DelayTask, close_dependency_graph
    from valjean.cambronne.common import (check_unique_task_names,
                                          collect_tasks)
    rng = core.rng_for(seed, PROP, 'collect', idx)
    case = {'seed': seed, 'idx': idx, 'mode': 'collect'}
    num = rng.randint(1, 9)
    dup = rng.random() < 0.35
    tasks = []
    for i in range(num):
        name = f't{i}'
        if dup and i and rng.random() < 0.4:
            name = tasks[rng.randrange(i)].name
        tasks.append(DelayTask(name, 0))
    for i, task in enumerate(tasks):
        for j in range(i):
            rnd = rng.random()
            if rnd < 0.25:
                task.depends_on.add(tasks[j])
            elif rnd < 0.4:
                task.soft_depends_on.add(tasks[j])
    roots = rng.sample(tasks, rng.randint(1, len(tasks)))
    if rng.random() < 0.3:
        roots = roots + [roots[0]]            # listed twice
    want, todo = set(), list(roots)
    while todo:
        task = todo.pop()
        if id(task) in want:
            continue
        want.add(id(task))
        todo.extend(task.depends_on)
        todo.extend(task.soft_depends_on)
    byid = {id(t): t for t in tasks}
    names = [byid[i].name for i in want]
    has_dup = len(set(names)) != len(names)
    rec.count('collections_checked')
    use_file = idx % 5 == 0
    try:
        if use_file:
            tmp = tempfile.mkdtemp(prefix='vf-c15c-', dir=core.fast_tmp())
            try:
                job = os.path.join(tmp, f'job_{seed}_{idx}.py')
                import builtins
                key = f'_vf_c15_roots_{seed}_{idx}'
                setattr(builtins, key, roots)
                with open(job, 'w') as fil:
                    fil.write('import builtins\n\ndef job():\n'
                              f'    return list(builtins.{key})\n')
                got = collect_tasks(job, [], {})
                delattr(builtins, key)
            finally:
                shutil.rmtree(tmp, ignore_errors=True)
        else:
            got = close_dependency_graph(roots)
            check_unique_task_names(got)
    except ValueError as err:
        if not has_dup:
            rec.violation('collection-rejected-unique-names',
                          f'{err}; names {sorted(names)}', case)
        else:
            rec.count('duplicate_names_rejected')
        return
    if has_dup:
        rec.violation('two-tasks-with-one-name-accepted',
                      f'names {sorted(names)}', case)
        return
    ids = [id(t) for t in got]
    if sorted(ids) != sorted(want):
        missing = [byid[i].name for i in want - set(ids)]
        twice = sorted({byid[i].name for i in ids if ids.count(i) > 1})
        rec.violation('collection-differs-from-transitive-closure',
                      f'missing {missing}, duplicated {twice}', case)
    rec.seen(('collect', num, has_dup, len(roots)))


def run(spec, rec):
    for idx in range(spec['lo'], spec['hi']):
        rec.count('evaluations')
        which = idx % 4
        if which in (0, 1):
            use_history(spec['seed'], idx, rec)
        elif which == 2:
            factory_history(spec['seed'], idx, rec)
        else:
            collection_case(spec['seed'], idx, rec)
    for name in DECIDING:
        rec.count(name, 0)


def replay(case, rec):
    rec.count('evaluations')
    {'use': use_history, 'factory': factory_history,
     'collect': collection_case}[case['mode']](case['seed'], case['idx'],
                                               rec)
