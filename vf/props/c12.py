'''C12 -- a rendered report shows a failure mark exactly for the results that
failed.

Monitor: every rendering produced by the real representers and the real rst
formatter is parsed back with docutils.  Checked on the document tree:

M   marks (``hl`` inline nodes, which is how KO and highlighted cells are
    emitted) are present iff the result is false (per sub-result for the
    "full" representers, which append the rendering of the underlying test);
V   the text is valid reStructuredText (no docutils warning);
T   every table reads back, cell by cell, as the formatted columns of the
    template it was made from, with the highlight flags at the same rows
    (generic: any row shift, dropped row or moved mark shows);
D   in the detailed tables of dataset comparisons the rows are mapped back to
    bins through their bin labels: the highlighted rows are exactly the
    failing bins and the cells are the values / errors / labels of those bins
    (labels and numbers formatted independently of the code under test);
S   a sliced / joined TableTemplate renders as the corresponding rows of the
    original rendering.'''
import numpy as np

from vf import core, resgen, contracts
from vf.oracles import rstback

PROP = 'C12'
LEVEL = 'exploration'
RULE = ('results of every kind with a built-in representation (equal, '
        'approx-equal, Student, Bonferroni, Holm-Bonferroni, metadata, '
        'statistics of tasks / tests / tests by labels with every mixture of '
        'statuses including "nothing succeeded", failed evaluation) x shapes '
        '() to 3-d x failing patterns (none, one, first, last, all, random, '
        'NaN) x 1-3 datasets, each rendered at the five non-silent '
        'verbosities by the Table and FullTable representers (thorough: '
        'also the Full representer with plots) and read back with docutils; '
        'distinct = distinct (kind, verdict, verbosity, representer, shape '
        'class, failing pattern)')
DECIDING = ['renderings', 'mark_checks', 'tables_read_back',
            'detailed_tables_mapped_to_bins', 'slices_checked',
            'joins_checked', 'reused_formatter_checks']
ASSUMPTIONS = ['names, labels and messages are drawn from [A-Za-z0-9_ .-]: '
               'escaping arbitrary markup is not part of the statement',
               'plot representers are only given datasets without length-1 '
               'dimensions (documented precondition of CurveElements)',
               'docutils is trusted as the reader of reStructuredText; the '
               'Sphinx-only :ref: role and toctree directive are registered '
               'as inert']
SHARD_TIMEOUT = {'quick': 900, 'thorough': 3000}


def plan(tier, seed):
    specs = core.std_plan(PROP, tier, seed, quick=1600, thorough=30000)
    if tier == 'thorough':
        # the repository's own tests with the contracts switched on
        specs.append({'prop': PROP, 'tier': tier, 'seed': seed,
                      'shard': 9000, 'mode': 'repo-tests',
                      'hashseed': 0})
    return specs


def fmt_num(val):
    return '{:11.6g}'.format(val).strip()


def fmt_cell(val):
    '''Independent formatting of a table cell (the documented format).'''
    if isinstance(val, (bool, np.bool_)):
        return str(bool(val))
    if isinstance(val, (float, np.floating)):
        return fmt_num(val)
    if isinstance(val, np.ndarray) and val.ndim == 0:
        return fmt_cell(val[()])
    return str(val).strip()


def expected_rows(table):
    '''Rows (text, highlighted) that the template must render as.'''
    cols = [np.asarray(col).reshape(-1) if not isinstance(col, list)
            else np.asarray(col, dtype=object).reshape(-1)
            for col in table.columns]
    highs = [np.asarray(h).reshape(-1) for h in table.highlights]
    nrows = len(cols[0])
    aligned = all(len(c) == nrows for c in cols) and \
        all(len(h) == nrows for h in highs) and len(highs) == len(cols)
    rows = []
    for i in range(nrows):
        rows.append([(fmt_cell(col[i]), bool(high[i]) if i < len(high)
                      else None) for col, high in zip(cols, highs)])
    return rows, aligned


def norm(text):
    return ' '.join(text.replace('\xa0', ' ').split())


def render(templates):
    from valjean.javert.rst import RstFormatter
    fmt = RstFormatter()
    return '\n'.join(str(fmt.template(t)) for t in templates)


def bin_labels(dset):
    '''Per dimension, the label of every cell, computed from the bins.'''
    out = []
    for (name, arr), dim in zip(dset.bins.items(), np.shape(dset.value)):
        arr = np.asarray(arr)
        if len(arr) == dim + 1:
            labs = [f'{a:.4g} - {b:.4g}' for a, b in zip(arr[:-1], arr[1:])]
        else:
            labs = [f'{c:.4g}' for c in arr]
        out.append((name, labs))
    return out


def check_detailed(gen, res, tabs_read, verb, rec, case, tag):
    '''Map the rows of a detailed table back to bins.'''
    # pylint: disable=too-many-locals,too-many-branches
    kind = gen['kind']
    test = res.test
    ref, dsets = test.dsref, list(test.datasets)
    shape = np.shape(ref.value)
    if kind == 'equal':
        flags = [np.asarray(x) for x in res.equal]
    elif kind == 'approx':
        flags = [np.asarray(x) for x in res.approx_equal]
    else:
        flags = [np.asarray(x) for x in res.oracles()]
    failing = np.zeros(shape, dtype=bool)
    for flag in flags:
        failing |= ~flag.astype(bool).reshape(shape)
    # trivial dimensions (one cell) are documented as not represented
    labels = [(axis, name, labs) for axis, (name, labs)
              in enumerate(bin_labels(ref)) if shape[axis] >= 2] \
        if shape else []
    if len(tabs_read) != 1:
        return
    tab = tabs_read[0]
    nlab = len(labels)
    seen = set()
    for row in tab['rows']:
        idx = [0] * len(shape)
        for (axis, name, labs), (text, _) in zip(labels, row[:nlab]):
            if norm(text) not in labs:
                rec.violation(f'bin-label-unknown-{tag}',
                              f'{kind}: cell {text!r} is not a bin label of '
                              f'dimension {name}: {labs}', case)
                return
            idx[axis] = labs.index(norm(text))
        idx = tuple(idx)
        seen.add(idx)
        cells = row[nlab:]
        # reference value (and error for Student) then per dataset columns
        exp = [fmt_num(ref.value[idx] if shape else ref.value)]
        per_ds = 2
        if kind == 'student':
            exp.append(fmt_num(ref.error[idx] if shape else ref.error))
            per_ds = 4
        pos = len(exp)
        got = [norm(c[0]) for c in cells[:pos]]
        if got != exp:
            rec.violation(f'reference-cells-wrong-{tag}',
                          f'{kind} bin {idx}: reference cells {got}, the '
                          f'dataset holds {exp}', case)
            return
        for k, dset in enumerate(dsets):
            chunk = cells[pos + k * per_ds: pos + (k + 1) * per_ds]
            val = dset.value[idx] if shape else dset.value
            if norm(chunk[0][0]) != fmt_num(val):
                rec.violation(f'dataset-cell-wrong-{tag}',
                              f'{kind} bin {idx}: value cell '
                              f'{chunk[0][0]!r}, dataset {k} holds '
                              f'{fmt_num(val)}', case)
                return
            if kind == 'student':
                err = dset.error[idx] if shape else dset.error
                if norm(chunk[1][0]) != fmt_num(err):
                    rec.violation(f'dataset-cell-wrong-{tag}',
                                  f'{kind} bin {idx}: error cell '
                                  f'{chunk[1][0]!r}, dataset {k} holds '
                                  f'{fmt_num(err)}', case)
                    return
            fails = not bool(flags[k].reshape(shape)[idx] if shape
                             else flags[k])
            marked = any(c[1] for c in chunk)
            if fails != marked:
                rec.violation(f'highlight-not-on-failing-bin-{tag}',
                              f'{kind} bin {idx} dataset {k}: failing='
                              f'{fails} but highlighted={marked}', case)
                return
    allbins = set(np.ndindex(*shape)) if shape else {()}
    failbins = {i for i in allbins if failing[i]} if shape else \
        ({()} if failing else set())
    rec.count('detailed_tables_mapped_to_bins')
    if kind == 'student' and verb in ('DEFAULT', 'INTERMEDIATE') and shape:
        expected = failbins
    else:
        expected = allbins
    if seen != expected or len(tab['rows']) != len(expected):
        rec.violation(f'rows-are-not-the-expected-bins-{tag}',
                      f'{kind} {verb}: rows for bins {sorted(seen)} '
                      f'({len(tab["rows"])} rows), expected '
                      f'{sorted(expected)}', case)


def check_tables(templates, doc, rec, case, tag):
    '''Generic read-back of every TableTemplate.'''
    from valjean.javert.templates import TableTemplate
    tabs = [t for t in templates if isinstance(t, TableTemplate)]
    read = rstback.tables(doc)
    if len(read) != len(tabs):
        rec.violation(f'table-count-{tag}', f'{len(tabs)} table templates, '
                      f'{len(read)} tables read back', case)
        return read
    for tab, got in zip(tabs, read):
        rec.count('tables_read_back')
        exp, aligned = expected_rows(tab)
        if not aligned:
            rec.violation(f'template-columns-and-highlights-misaligned-{tag}',
                          'columns of sizes '
                          f'{[np.size(c) for c in tab.columns]}, highlights '
                          f'{[np.size(h) for h in tab.highlights]}', case)
        heads = [norm(h) for h in got['headers']]
        if heads != [norm(h) for h in tab.headers]:
            rec.violation(f'headers-differ-{tag}', f'{heads} vs '
                          f'{tab.headers}', case)
        # (the order of the rows follows the memory layout of the arrays and
        # is not part of the statement: rows are compared as a multiset)
        got_rows = sorted([(norm(t), h) for t, h in row]
                          for row in got['rows'])
        exp_rows = sorted([(norm(t), h) for t, h in row] for row in exp)
        if got_rows != exp_rows:
            if len(got_rows) != len(exp_rows):
                why = (f'{len(got_rows)} rows read back, the template holds '
                       f'{len(exp_rows)}')
                key = 'rows-lost'
            else:
                bad = next(i for i, (a, b) in enumerate(zip(got_rows,
                                                            exp_rows))
                           if a != b)
                why = (f'row {bad}: read {got_rows[bad]}, template '
                       f'{exp_rows[bad]}')
                texts_same = [[c[0] for c in r] for r in got_rows] == \
                    [[c[0] for c in r] for r in exp_rows]
                key = 'highlights-moved' if texts_same else 'cells-differ'
            rec.violation(f'{key}-{tag}', why, case)
    return read


def sub_verdicts(gen, res, repname):
    '''Verdicts of everything the representer renders.'''
    verdicts = [bool(res)]
    if gen['kind'] in ('bonferroni', 'holm') and repname != 'table':
        verdicts.append(bool(res.first_test_res))
    return verdicts


def check_slices(templates, rng, rec, case, tag):
    '''S: sliced and joined templates render as the corresponding rows.'''
    from valjean.javert.templates import TableTemplate
    for tab in templates:
        if not isinstance(tab, TableTemplate):
            continue
        # a table joined with a copy of itself: the rows twice, marks too
        sizes = {int(np.size(c)) for c in tab.columns}
        if len(sizes) == 1 and 2 <= next(iter(sizes)) <= 40:
            full, aligned = expected_rows(tab)
            if aligned:
                try:
                    left = tab.copy()
                    left.join(tab.copy())
                    text = render([left])
                except Exception as err:  # pylint: disable=broad-except
                    rec.violation(f'join-raised-{type(err).__name__}-{tag}',
                                  f'{err!r}', case)
                    continue
                doc, _ = rstback.parse(text)
                rec.count('joins_checked')
                got = rstback.tables(doc)[0]['rows'] if doc is not None \
                    and rstback.tables(doc) else []
                got = sorted([(norm(t), h) for t, h in row] for row in got)
                want = sorted([(norm(t), h) for t, h in row]
                              for row in full + full)
                if got != want:
                    texts_same = [[c[0] for c in r] for r in got] == \
                        [[c[0] for c in r] for r in want]
                    rec.violation(('highlights-moved-after-join-' if
                                   texts_same else 'rows-wrong-after-join-')
                                  + tag, f'table of {len(full)} rows joined '
                                  f'with a copy of itself: read {got[:4]}, '
                                  f'expected {want[:4]}', case)
        if not all(isinstance(c, np.ndarray) and c.ndim >= 1
                   for c in tab.columns):
            continue
        shape = tab.columns[0].shape
        if any(c.shape != shape for c in tab.columns) or \
                any(np.shape(h) != shape for h in tab.highlights):
            continue
        full, _ = expected_rows(tab)
        numbers = np.arange(int(np.prod(shape))).reshape(shape)
        index = []
        for dim in shape:
            lo = rng.randint(0, dim - 1)
            hi = rng.randint(lo + 1, dim)
            index.append(slice(lo, hi) if rng.random() < 0.8
                         else slice(None))
        index = tuple(index) if len(index) > 1 or rng.random() < 0.5 \
            else index[0]
        try:
            sub = tab[index]
            text = render([sub])
        except Exception as err:  # pylint: disable=broad-except
            rec.violation(f'slicing-raised-{type(err).__name__}-{tag}',
                          f'table of shape {shape}[{index}]: {err!r}', case)
            continue
        doc, warn = rstback.parse(text)
        rec.count('slices_checked')
        want = [full[i] for i in numbers[index].reshape(-1)]
        got = rstback.tables(doc)[0]['rows'] if doc is not None and \
            rstback.tables(doc) else []
        got = sorted([(norm(t), h) for t, h in row] for row in got)
        want = sorted([(norm(t), h) for t, h in row] for row in want)
        if got != want or warn:
            texts_same = [[c[0] for c in r] for r in got] == \
                [[c[0] for c in r] for r in want]
            key = ('highlights-moved-after-slicing' if texts_same
                   else 'rows-wrong-after-slicing')
            rec.violation(f'{key}-{tag}', f'table of shape {shape} sliced '
                          f'with {index}: read {got[:3]}..., expected '
                          f'{want[:3]}... {warn[:100]}', case)
        # integer indices (first, last, one in between) of 1-d tables
        if len(shape) == 1:
            for pos in {0, -1, rng.randrange(shape[0])}:
                try:
                    text = render([tab[pos]])
                except Exception as err:  # pylint: disable=broad-except
                    rec.violation(f'indexing-raised-{type(err).__name__}-'
                                  f'{tag}', f'table of {shape[0]} rows '
                                  f'[{pos}]: {err!r}', case)
                    continue
                doc, _ = rstback.parse(text)
                rec.count('slices_checked')
                got = rstback.tables(doc)[0]['rows'] if doc is not None \
                    and rstback.tables(doc) else []
                got = [[(norm(t), h) for t, h in row] for row in got]
                want = [[(norm(t), h) for t, h in full[pos]]]
                if got != want:
                    rec.violation(f'rows-wrong-after-slicing-{tag}',
                                  f'table of {shape[0]} rows indexed with '
                                  f'{pos}: read {got}, expected {want}', case)
        # join: two slices put together again
        if len(shape) == 1 and shape[0] >= 2:
            cut = rng.randint(1, shape[0] - 1)
            try:
                left, right = tab[:cut], tab[cut:]
                left.join(right)
                text = render([left])
            except Exception as err:  # pylint: disable=broad-except
                rec.violation(f'join-raised-{type(err).__name__}-{tag}',
                              f'{err!r}', case)
                continue
            doc, warn = rstback.parse(text)
            rec.count('joins_checked')
            got = rstback.tables(doc)[0]['rows'] if doc is not None and \
                rstback.tables(doc) else []
            got = sorted([(norm(t), h) for t, h in row] for row in got)
            want = sorted([(norm(t), h) for t, h in row] for row in full)
            if got != want:
                rec.violation(f'rows-wrong-after-join-{tag}',
                              f'table of {shape[0]} rows cut at {cut} and '
                              f'joined: read {got[:4]}, expected '
                              f'{want[:4]}', case)


def check_reused_formatter(seed, idx, rec, case):
    '''One Rst object formats two results in a row (and again after
    clear()): each text must be the one a fresh Rst object gives, in
    particular for two runs of the same tasks with different outcomes.'''
    from valjean.javert.representation import (Representation,
                                               FullTableRepresenter)
    from valjean.javert.verbosity import Verbosity
    from valjean.javert.rst import Rst
    from valjean.gavroche.diagnostics import stats as vst
    rng = core.rng_for(seed, PROP, 'reuse', idx)
    verb = rng.choice([Verbosity.SUMMARY, Verbosity.DEFAULT,
                       Verbosity.FULL_DETAILS])
    kind = rng.choice(['stats_tasks', 'stats_tests', 'stats_labels',
                       'student'])
    if kind == 'student':
        pair = [resgen.gen_result(core.rng_for(seed, PROP, 'reuse', idx, k),
                                  'student', (3,))['result']
                for k in (0, 1)]
    else:
        # the same tasks, run twice with different outcomes
        trs_1 = resgen.task_results(core.rng_for(seed, PROP, 'reuse', idx,
                                                 'a'), 'all_ok')
        trs_2 = [(name, dict(entry)) for name, entry in trs_1]
        from valjean.cosette.task import TaskStatus
        trs_2[0][1]['status'] = TaskStatus.FAILED
        from valjean.gavroche.test import TestEqual
        ref, dss, _ = resgen.datasets(rng, (2,), 1, 'all')
        trs_2[0][1]['result'] = [TestEqual(ref, *dss, name='inner0',
                                           labels={'x': 'a', 'y': 'c',
                                                   'z': 'e'}).evaluate()]
        cls = {'stats_tasks': vst.TestStatsTasks,
               'stats_tests': vst.TestStatsTests,
               'stats_labels': vst.TestStatsTestsByLabels}[kind]
        extra = {'by_labels': ('x',)} if kind == 'stats_labels' else {}
        try:
            pair = [cls(name='summary', task_results=trs,
                        **extra).evaluate() for trs in (trs_1, trs_2)]
        except vst.TestStatsTestsByLabelsException:
            return
    if rng.random() < 0.5:
        pair.reverse()
    # the verbosity is either one level or a function of the result (then
    # each result asks for its own level)
    levels = [verb] * 2
    shared_verb = verb
    if rng.random() < 0.4:
        levels = [rng.choice([Verbosity.SILENT, Verbosity.SUMMARY,
                              Verbosity.DEFAULT, Verbosity.FULL_DETAILS])
                  for _ in pair]
        wanted = {id(res): lev for res, lev in zip(pair, levels)}
        shared_verb = lambda res: wanted[id(res)]   # noqa: E731
        rec.count('reused_formatter_with_a_verbosity_function')
    shared = Rst(Representation(FullTableRepresenter(), shared_verb))
    for step, res in enumerate(pair + pair[:1]):
        if step == 2:
            shared.clear()
        text = '\n'.join(shared.format_result(res))
        fresh = '\n'.join(Rst(Representation(
            FullTableRepresenter(), levels[step % 2])).format_result(res))
        rec.count('reused_formatter_checks')
        if callable(shared_verb) and not fresh:
            # nothing to show at this level: with a verbosity function the
            # formatter still emits the anchor and the description of the
            # test (no table, no mark), with a fixed level nothing at all --
            # both are fine for the statement
            continue
        if text != fresh:
            doc, _ = rstback.parse(text)
            marks = rstback.marks(doc) if doc is not None else []
            rec.violation(f'formatter-remembers-an-earlier-result-{kind}',
                          f'{kind}/{verb.name}: the {step + 1}. result '
                          f'formatted by one Rst object (verdict '
                          f'{bool(res)}) differs from what a fresh object '
                          f'gives; marks {marks[:3]}', case)
            return


def run_case(seed, idx, tier, rec):
    # pylint: disable=too-many-locals,too-many-branches,too-many-statements
    from valjean.javert.representation import (
        Representation, TableRepresenter, FullTableRepresenter,
        FullRepresenter)
    from valjean.javert.verbosity import Verbosity
    rng = core.rng_for(seed, PROP, idx)
    with_plots = tier == 'thorough' and idx % 4 == 0
    gen = resgen.gen_result(rng, plot_safe=with_plots)
    res, kind = gen['result'], gen['kind']
    case = {'seed': seed, 'idx': idx, 'tier': tier}
    rec.count('results')
    truth = bool(res)
    reps = [('table', TableRepresenter), ('fulltable', FullTableRepresenter)]
    if with_plots:
        reps.append(('full', FullRepresenter))
    shape_class = (len(gen['shape']), 1 in gen['shape'])
    for verb in (Verbosity.SUMMARY, Verbosity.DEFAULT,
                 Verbosity.INTERMEDIATE, Verbosity.FULL_DETAILS,
                 Verbosity.DEVELOPMENT):
        for repname, repcls in reps:
            tag = f'{kind}'
            where = f'{kind}/{verb.name}/{repname}/{gen["shape"]}'
            try:
                templates = Representation(repcls(), verb)(res)
                text = render(templates)
            except Exception as err:  # pylint: disable=broad-except
                rec.violation(f'rendering-failed-{kind}-'
                              f'{type(err).__name__}',
                              f'{where}: {err!r}', case)
                continue
            rec.count('renderings')
            rec.count('evaluations')      # one evaluation = one rendering
            doc, warn = rstback.parse(text)
            if doc is None or warn.strip():
                rec.violation(f'invalid-rst-{tag}', f'{where}: '
                              f'{warn[:300]} in {text[:400]!r}', case)
                if doc is None:
                    continue
            marks = rstback.marks(doc)
            rec.count('mark_checks')
            verdicts = sub_verdicts(gen, res, repname)
            expect_marks = not all(verdicts)
            if marks and not expect_marks:
                rec.violation(f'mark-on-passing-result-{tag}',
                              f'{where}: marks {marks[:4]} although the '
                              'result is true', case)
            if not marks and expect_marks:
                rec.violation(f'no-mark-on-failing-result-{tag}',
                              f'{where}: verdicts {verdicts}, no highlight '
                              f'or KO mark in {text[:500]!r}', case)
            read = check_tables(templates, doc, rec, case, tag)
            if kind in ('equal', 'approx', 'student') and repname == 'table':
                detailed = (verb.name in ('FULL_DETAILS', 'DEVELOPMENT')
                            or (kind != 'student' and not truth and
                                verb.name in ('DEFAULT', 'INTERMEDIATE'))
                            or (kind == 'approx'
                                and verb.name != 'SUMMARY')
                            or (kind == 'student' and not truth
                                and verb.name in ('DEFAULT',
                                                  'INTERMEDIATE')))
                if detailed and read:
                    check_detailed(gen, res, read, verb.name, rec, case, tag)
            if verb in (Verbosity.FULL_DETAILS, Verbosity.DEFAULT) \
                    and repname == 'table':
                check_slices(templates, rng, rec, case, tag)
            rec.seen((kind, truth, verb.name, repname, shape_class,
                      tuple(gen.get('fail', ())), gen.get('style')))
    if idx % 3 == 0:
        check_reused_formatter(seed, idx, rec, case)
    if idx % 300 == 0:
        rec.sample({'kind': kind, 'shape': list(gen['shape']),
                    'verdict': truth, 'fail': gen.get('fail'),
                    'style': gen.get('style'),
                    'last_rendering': text[:600]})


def run(spec, rec):
    if spec.get('mode') == 'repo-tests':
        core.repo_tests_under_contracts(['TableTemplate'],
                                        ['tests/javert', 'valjean/javert/templates.py', 'valjean/javert/table_repr.py'],
                                        rec, {'mode': 'repo-tests'})
        for name in DECIDING:
            rec.count(name, 0)
        return
    contracts.install(['TableTemplate'])
    for idx in range(spec['lo'], spec['hi']):
        try:
            run_case(spec['seed'], idx, spec['tier'], rec)
        except contracts.InvariantBroken as err:
            rec.violation('template-invariant-broken', repr(err)[:300],
                          {'seed': spec['seed'], 'idx': idx,
                           'tier': spec['tier']})
    rec.count('contract.TableTemplate.aligned',
              contracts.EVALS.get('TableTemplate.aligned', 0))


def replay(case, rec):
    contracts.install(['TableTemplate'])
    run_case(case['seed'], case['idx'], case.get('tier', 'quick'), rec)
