'''C04 -- re-running a job re-executes exactly the tasks whose results are out of
date.

Monitor: histories of runs of the real scheduler over one evolving job.
Between runs the environment is carried over the documented way (a fresh
environment into which only the DONE entries of the previous one are merged;
thorough tier: through the real write_env / read_env files), random tasks
fail, recover, lose their persisted entry or are newly added.  After every run
two invariants are evaluated on the environment with the probes' per-run
execution counters and deep digests of every entry:

I1  no task is DONE unless every DONE dependency ended before it started and
    no hard dependency is FAILED / SKIPPED;
I2  a task that was DONE (and newer than its dependencies) with all its
    transitive dependencies DONE, none of which was executed in this run, was
    not executed and its entry is unchanged.'''
import copy
import os
import shutil
import tempfile

from vf import core, snapshot
from vf.sched import controller as C
from vf.sched import harness as H

PROP = 'C04'
LEVEL = 'exploration'
RULE = ('histories of 2-6 runs over DAGs of 3-10 probe tasks with chains of '
        'length >= 3 (hard and soft edges); between runs random tasks fail, '
        'recover, lose their persisted entry, or are newly added (as '
        'dependents or as dependencies of existing tasks); every run under '
        'a controlled schedule with a logical clock carried across runs, a '
        'share in the stress layer with real clocks; thorough tier also '
        'through write_env/read_env files; distinct = distinct (history '
        'shape, per-run schedule traces) in which at least one run '
        're-executed the head or the middle of a chain of DONE tasks')
DECIDING = ['runs', 'I1_checks', 'I2_checks', 'reexecutions_observed',
            'chain_head_reexecuted', 'stress_runs', 'cli_runs']
ASSUMPTIONS = ['environments are carried over the documented way: only DONE '
               'entries are merged into a fresh environment',
               'real clocks may tie: "finished before it started" is end <= '
               'start',
               'I2 is claimed only when the task was newer than its '
               'dependencies in the environment handed to the run']
SHARD_TIMEOUT = {'quick': 600, 'thorough': 3000}
KINDS = ('raise', 'failed', 'none', 'badupdate', 'badstatus')


def plan(tier, seed):
    total = 3000 if tier == 'quick' else 30000
    specs = core.std_plan(PROP, tier, seed, quick=total, thorough=total,
                          mode='random')
    nstress = 4 if tier == 'quick' else 6
    for spec in specs[-nstress:]:
        spec['mode'] = 'stress'
        spec['lo'], spec['hi'] = 0, (5 if tier == 'quick' else 60)
    if tier == 'thorough':
        for spec in specs[:4]:
            spec['files'] = True
    else:
        specs[0]['files'] = True
    # histories through the real `valjean run` command class
    ncli = 2 if tier == 'quick' else 4
    for i in range(ncli):
        specs.append({'prop': PROP, 'tier': tier, 'seed': seed,
                      'shard': 500 + i, 'mode': 'cli', 'lo': 0,
                      'hi': 40 if tier == 'quick' else 1500,
                      'hashseed': 11 + i})
    return specs


def gen_history(rng):
    '''A job that evolves over 2-6 runs.'''
    ntasks = rng.randint(3, 10)
    names = [f't{i}' for i in range(ntasks)]
    hard, soft = {}, {}
    # a backbone chain of length >= 3, then random edges
    chain = sorted(rng.sample(range(ntasks), rng.randint(3, min(5, ntasks))))
    for lo, hi in zip(chain, chain[1:]):
        (hard if rng.random() < 0.7 else soft).setdefault(
            names[hi], []).append(names[lo])
    for i in range(ntasks):
        for j in range(i):
            if names[j] in hard.get(names[i], []) + soft.get(names[i], []):
                continue
            rnd = rng.random()
            if rnd < 0.15:
                hard.setdefault(names[i], []).append(names[j])
            elif rnd < 0.25:
                soft.setdefault(names[i], []).append(names[j])
    # a dependency may be listed as hard and as soft by the same task (hard
    # is what counts)
    for name, deps in list(hard.items()):
        for dep in deps:
            if rng.random() < 0.12:
                soft.setdefault(name, []).append(dep)
    nruns = rng.randint(2, 6)
    born = {n: (0 if rng.random() < 0.8 else rng.randint(1, nruns - 1))
            for n in names}
    runs = []
    failing = {}
    # tasks whose update starts from their previous record (which holds the
    # clocks of their previous execution)
    echo = {n for n in names if rng.random() < 0.2}
    for run in range(nruns):
        # fail / recover
        for name in names:
            if name in failing:
                if rng.random() < 0.6:
                    del failing[name]
            elif rng.random() < 0.12:
                failing[name] = rng.choice(KINDS)
        lose = []
        if run:
            style = rng.random()
            if style < 0.4:
                lose = [rng.choice(names)]
            elif style < 0.6:
                lose = rng.sample(names, rng.randint(1, max(1, ntasks // 2)))
        runs.append({'outcomes': {n: failing.get(
            n, 'ok_echo' if n in echo else 'ok') for n in names},
                     'lose': sorted(lose),
                     'workers': rng.choice([1, 2, 2, 3, 4, 8])})
    order = names[:]
    rng.shuffle(order)
    return {'tasks': order, 'hard': hard, 'soft': soft, 'born': born,
            'runs': runs}


def case_for_run(hist, run_no):
    alive = [n for n in hist['tasks'] if hist['born'][n] <= run_no]
    keep = set(alive)
    run = hist['runs'][run_no]
    return {'tasks': alive,
            'hard': {n: [d for d in deps if d in keep]
                     for n, deps in hist['hard'].items() if n in keep},
            'soft': {n: [d for d in deps if d in keep]
                     for n, deps in hist['soft'].items() if n in keep},
            'outcomes': {n: run['outcomes'][n] for n in alive},
            'workers': run['workers']}


def transitive(case):
    deps = {n: set(case['hard'].get(n, [])) | set(case['soft'].get(n, []))
            for n in case['tasks']}
    clo = {n: set(d) for n, d in deps.items()}
    changed = True
    while changed:
        changed = False
        for name in clo:
            new = set().union(*(clo[d] for d in clo[name])) - clo[name]
            if new:
                clo[name] |= new
                changed = True
    return deps, clo


def status_of(env, name):
    try:
        return getattr(env[name].get('status'), 'name', None)
    except (KeyError, AttributeError):
        return None


def entry_digest(env, name):
    try:
        return snapshot.digest(env[name])
    except KeyError:
        return None


def check_run(case, before, env, exec_run, rec, where):
    '''Evaluate I1 and I2 after one run.  `before` is the snapshot of the
    environment handed to the run: name -> (status, start, end, digest).'''
    deps, clo = transitive(case)
    i1_bad = False
    for name in case['tasks']:
        if status_of(env, name) != 'DONE':
            continue
        start = env[name].get('start_clock')
        for dep in sorted(deps[name]):
            sdep = status_of(env, dep)
            rec.count('I1_checks')
            if dep in case['hard'].get(name, []) and sdep in ('FAILED',
                                                              'SKIPPED'):
                rec.violation('I1-done-with-failed-hard-dependency',
                              f'{name} is DONE but its hard dependency {dep} '
                              f'is {sdep}', where)
                i1_bad = True
            if sdep == 'DONE':
                end = env[dep].get('end_clock')
                if start is None or end is None or end > start:
                    executed = (exec_run.get(name, 0), exec_run.get(dep, 0))
                    key = ('I1-done-task-older-than-dependency'
                           + ('-not-reexecuted' if not executed[0]
                              else '-executed-in-this-run'))
                    rec.violation(key, f'{name} is DONE with start_clock '
                                  f'{start} but its DONE dependency {dep} '
                                  f'ended at {end} (executions in this run: '
                                  f'{name} {executed[0]}, {dep} '
                                  f'{executed[1]})', where)
                    i1_bad = True
    for name in case['tasks']:
        was = before.get(name)
        if not was or was[0] != 'DONE':
            continue
        if any(not before.get(d) or before[d][0] != 'DONE'
               for d in clo[name]):
            continue
        if any(exec_run.get(d, 0) for d in clo[name]):
            continue
        # newer than its dependencies when the run started?
        if any(before[d][2] is None or was[1] is None
               or before[d][2] > was[1] for d in deps[name]):
            rec.count('I2_not_claimed_stale_at_start')
            continue
        rec.count('I2_checks')
        if exec_run.get(name, 0):
            rec.violation('I2-up-to-date-task-reexecuted',
                          f'{name} was DONE, all its transitive dependencies '
                          f'were DONE and none was re-executed, but it was '
                          f'executed {exec_run[name]} time(s)', where)
        elif entry_digest(env, name) != was[3]:
            rec.violation('I2-entry-of-up-to-date-task-changed',
                          f'the entry of {name} changed although it was not '
                          f'executed: now {dict(env[name])!r}', where)
    return i1_bad


def snapshot_env(env, names):
    out = {}
    for name in names:
        if name in env:
            ent = env[name]
            out[name] = (status_of(env, name), ent.get('start_clock'),
                         ent.get('end_clock'), snapshot.digest(ent))
    return out


def carry_memory(prev_env, lose):
    '''A fresh environment with the DONE entries of the previous one (deep
    copies, as the pickled files would give).'''
    from valjean.cosette.env import Env
    plain = Env()
    if prev_env is not None:
        for name, entry in prev_env.items():
            if name not in lose:
                plain[name] = copy.deepcopy(dict(entry))
    env = H.env_class()()
    env.merge_done_tasks(plain)
    return env


def carry_files(prev_env, lose, names, root):
    '''The same through the real write_env / read_env.'''
    from valjean.cambronne.common import read_env, write_env
    if prev_env is not None:
        for name in names:
            os.makedirs(os.path.join(root, name), exist_ok=True)
        write_env(prev_env, filename='valjean.env', fmt='pickle')
        for name in lose:
            try:
                os.unlink(os.path.join(root, name, 'valjean.env'))
            except OSError:
                pass
    got = read_env(root=root, names=names, filename='valjean.env',
                   fmt='pickle')
    env = H.env_class()()
    for name, entry in got.items():
        env[name] = entry
    return env


def run_history(hist, seed_parts, rec, engine, files=False, choices=None):
    '''Execute a whole history; returns the list of per-run schedules.'''
    # pylint: disable=too-many-locals
    mon = H.Monitor()
    root = tempfile.mkdtemp(prefix='vf-c04-') if files else None
    env = None
    clock = 0
    traces, scheds = [], []
    interesting = False
    # half of the in-memory controlled histories keep the task objects and
    # the backend object from run to run (a long-lived process), the others
    # create them anew for every run (the command line)
    reuse = engine == 'controlled' and not files and \
        core.rng_for(*seed_parts, 'reuse').random() < 0.5
    if reuse:
        rec.count('histories_reusing_tasks_and_backend')
    tasks_graphs, backend = None, None
    try:
        for run_no in range(len(hist['runs'])):
            case = case_for_run(hist, run_no)
            lose = set(hist['runs'][run_no]['lose'])
            if files:
                env = carry_files(env, lose, case['tasks'], root)
            else:
                env = carry_memory(env, lose)
            before = snapshot_env(env, case['tasks'])
            if reuse and tasks_graphs is not None:
                # the task objects and the backend of the earlier runs serve
                # again; tasks that are new in this run are created
                tasks = tasks_graphs[0]
                fresh = H.build(case, mon, outroot=root or '/nonexistent')[0]
                for name in case['tasks']:
                    tasks.setdefault(name, fresh[name])
                tasks_graphs = (tasks,) + H.rewire(case, tasks)
            else:
                tasks_graphs = H.build(case, mon,
                                       outroot=root or '/nonexistent')
            rng = core.rng_for(*seed_parts, 'run', run_no)
            if engine == 'controlled':
                if choices is not None:
                    strat = C.Replay(choices[run_no])
                elif run_no % 2:
                    strat = C.RandomWalk(rng)
                else:
                    strat = C.PCT(rng, rng.choice([2, 3]),
                                  15 * len(case['tasks']) + 10)
                res = H.run_controlled(case, strat, mon=mon, env=env,
                                       tasks_graphs=tasks_graphs,
                                       clock0=clock,
                                       backend=backend if reuse else None)
                backend = res.backend
                clock = res.clock
            else:
                res = H.run_stress(case, rng, mon=mon, env=env,
                                   tasks_graphs=tasks_graphs,
                                   inject=rng.choice([0.0, 0.1]))
            rec.count('evaluations')
            if res.outcome == 'lost':
                rec.count('engine_lost_control')
                rec.note('lost', res.lost)
                return None
            scheds.append(res.choices)
            where = {'history': hist, 'engine': engine, 'files': files,
                     'seed_parts': list(seed_parts), 'run_no': run_no,
                     'choices': scheds}
            if res.outcome != 'returned':
                rec.count('runs_not_returned(C03)')
                rec.note('not_returned', [res.outcome, res.error])
                return None
            rec.count('runs')
            rec.count('stress_runs' if engine == 'stress'
                      else 'controlled_runs')
            for key, msg in res.start_violations:
                rec.violation('start-' + key, msg, where)
            check_run(case, before, env, res.exec_run, rec, where)
            reexec = [n for n in case['tasks'] if res.exec_run.get(n, 0)
                      and before.get(n, (None,))[0] == 'DONE']
            rec.count('reexecutions_observed', len(reexec))
            kept = [n for n in case['tasks'] if not res.exec_run.get(n, 0)
                    and before.get(n, (None,))[0] == 'DONE']
            rec.count('done_tasks_kept', len(kept))
            deps, _ = transitive(case)
            dependents = {d for n in case['tasks'] for d in deps[n]}
            if any(n in dependents for n in reexec):
                rec.count('chain_head_reexecuted')
                interesting = True
            traces.append(res.trace_hash)
        if interesting:
            rec.seen((len(hist['runs']), len(hist['tasks']), traces))
    finally:
        if root:
            shutil.rmtree(root, ignore_errors=True)
    return scheds


JOB_FILE = '''import builtins


def job():
    return list(getattr(builtins, %r))
'''


def cli_history(hist, seed_parts, rec):
    '''A history executed through RunCommand.execute (real threads, real
    clocks, real environment files); in some runs only a dependency-closed
    part of the job is requested.'''
    # pylint: disable=too-many-locals
    import builtins
    from argparse import Namespace
    from valjean.config import Config
    from valjean.cambronne.commands.run import RunCommand
    from valjean.cambronne.common import read_env
    mon = H.Monitor()
    root = tempfile.mkdtemp(prefix='vf-c04cli-', dir=core.fast_tmp())
    key = '_vf_c04_' + core.h(seed_parts)
    try:
        outroot = os.path.join(root, 'out')
        os.makedirs(outroot)
        job = os.path.join(root, f'job_{core.h(seed_parts)}.py')
        with open(job, 'w') as fil:
            fil.write(JOB_FILE % key)
        config = Config()
        config.set('path', 'output-root', outroot)
        config.set('path', 'log-root', os.path.join(root, 'log'))
        rng = core.rng_for(*seed_parts, 'cli')
        # the name of the environment files is an option of the command
        fname = rng.choice(['valjean.env', 'valjean.env', 'state.pickle',
                            'env.v2'])
        rec.count('cli_histories_env_filename.' + fname)
        prev_done = set()
        for run_no in range(len(hist['runs'])):
            case = case_for_run(hist, run_no)
            if not case['tasks']:
                continue        # every task of the job is added later
            # sometimes only a part of the job is asked for
            if run_no and rng.random() < 0.35:
                _, clo = transitive(case)
                focus = rng.choice(case['tasks'])
                keep = clo[focus] | {focus}
                case = {'tasks': [n for n in case['tasks'] if n in keep],
                        'hard': {n: d for n, d in case['hard'].items()
                                 if n in keep},
                        'soft': {n: d for n, d in case['soft'].items()
                                 if n in keep},
                        'outcomes': {n: o for n, o in
                                     case['outcomes'].items() if n in keep},
                        'workers': case['workers']}
                rec.count('cli_partial_jobs')
            for name in hist['runs'][run_no]['lose']:
                try:
                    os.unlink(os.path.join(outroot, name, fname))
                except OSError:
                    pass
            for name in case['tasks']:
                os.makedirs(os.path.join(outroot, name), exist_ok=True)
            tasks, _, _ = H.build(case, mon, outroot=outroot)
            mon.new_run(case['outcomes'])
            # roots: the tasks nothing else depends on
            deps, _ = transitive(case)
            needed = set().union(*deps.values()) if deps else set()
            roots = [tasks[n] for n in case['tasks'] if n not in needed]
            setattr(builtins, key, roots)
            before_env = read_env(root=outroot, names=case['tasks'],
                                  filename=fname, fmt='pickle')
            before = snapshot_env(before_env, case['tasks'])
            # what the previous run left DONE must be there for this one
            prev_done -= set(hist['runs'][run_no]['lose'])
            lost = [n for n in sorted(prev_done) if n in case['tasks']
                    and before.get(n, (None,))[0] != 'DONE']
            if lost:
                rec.violation('done-tasks-of-the-previous-run-not-persisted',
                              f'run {run_no} (environment files named '
                              f'{fname!r}): {lost} were DONE at the end of '
                              'the previous run and are not found DONE now',
                              {'history': hist, 'engine': 'cli',
                               'seed_parts': list(seed_parts),
                               'run_no': run_no})
                return
            args = Namespace(job_file=job, job_args=[], job_kwargs={},
                             workers=case['workers'],
                             env_filename=fname,
                             env_format='pickle')
            where = {'history': hist, 'engine': 'cli',
                     'seed_parts': list(seed_parts), 'run_no': run_no}
            rec.count('evaluations')
            try:
                env = RunCommand().execute(args, config)
            except Exception as err:  # pylint: disable=broad-except
                rec.count('runs_not_returned(C03)')
                rec.note('cli_raised', repr(err)[:200])
                return
            rec.count('runs')
            rec.count('cli_runs')
            for vkey, msg in mon.start_violations:
                rec.violation('start-' + vkey, msg, where)
            del mon.start_violations[:]
            check_run(case, before, env, dict(mon.exec_run), rec, where)
            reexec = [n for n in case['tasks'] if mon.exec_run.get(n, 0)
                      and before.get(n, (None,))[0] == 'DONE']
            rec.count('reexecutions_observed', len(reexec))
            prev_done = (prev_done - set(case['tasks'])) | {
                n for n in case['tasks'] if status_of(env, n) == 'DONE'
                and 'output_dir' in env[n]}    # (the others have no file)
        rec.seen(('cli', len(hist['runs']), len(hist['tasks'])))
    finally:
        if hasattr(builtins, key):
            delattr(builtins, key)
        shutil.rmtree(root, ignore_errors=True)


def run(spec, rec):
    seed = spec['seed']
    if spec['mode'] == 'cli':
        for idx in range(spec['lo'], spec['hi']):
            parts = (seed, PROP, 'cli', spec['shard'], idx)
            cli_history(gen_history(core.rng_for(*parts)), parts, rec)
        for name in DECIDING:
            rec.count(name, 0)
        return
    engine = 'stress' if spec['mode'] == 'stress' else 'controlled'
    for idx in range(spec['lo'], spec['hi']):
        parts = (seed, PROP, engine, spec['shard'] if engine == 'stress'
                 else 0, idx)
        hist = gen_history(core.rng_for(*parts))
        run_history(hist, parts, rec, engine, files=spec.get('files', False))
        if idx == spec['lo']:
            rec.sample({'history': hist})
    for name in ('stress_runs', 'controlled_runs'):
        rec.count(name, 0)


def replay(case, rec):
    engine = case['engine']
    if engine == 'cli':
        for _ in range(5):
            cli_history(case['history'], tuple(case['seed_parts']), rec)
        return
    reps = 1 if engine == 'controlled' else 10
    for _ in range(reps):
        run_history(case['history'], tuple(case['seed_parts']), rec, engine,
                    files=case.get('files', False),
                    choices=case['choices'] if engine == 'controlled'
                    else None)
