'''C16 -- the dependency graph mirrors a plain node/edge set under any edit
history.

Monitor: a reference model (list of node objects + set of (id, id) edges) is
updated alongside every public editing operation applied to the real DepGraph;
after every step all public queries are compared with the model, every earlier
copy / derived graph is re-checked against its own frozen model, and the graph
algorithms are compared with brute-force reachability.  Small graphs are
enumerated exhaustively.'''
import itertools
import warnings

from vf import core, contracts

PROP = 'C16'
LEVEL = 'exploration'
RULE = ('(a) random edit histories (<= 40 steps) of add/remove node/edge, '
        'merge, +, copy, invert, graft of nested graphs (empty, 1, 2+ nodes), '
        'flatten, checked after every step; (b) exhaustive: every digraph '
        'without self-loops on <= 4 labelled nodes and every DAG on 5 labelled '
        'nodes (thorough: every digraph on 5 nodes for cycle detection), built '
        'two ways, with topological sort, reduction, closure, depends; '
        'distinct by canonical (node count, sorted edge list, operation '
        'sequence hash); non-trivial when the graph has at least one edge')
DECIDING = ['rlist_invariant_evals', 'steps_checked', 'queries_checked', 'copies_rechecked',
            'toposorts_checked', 'algorithms_checked', 'flatten_checked']
ASSUMPTIONS = ['nodes are identity-keyed objects (the documented RList '
               'convention); graph algorithms are only claimed on acyclic '
               'graphs, cycle detection on all',
               'flatten reference: a graph-node G stands for "all of G after '
               'everything G depends on, everything depending on G after all '
               'of G" (virtual start/end nodes, reachability among plain '
               'nodes must be equal)']
SHARD_TIMEOUT = {'quick': 900, 'thorough': 3400}


class Node:
    '''Identity-keyed plain node.'''
    __slots__ = ('label',)

    def __init__(self, label):
        self.label = label

    def __repr__(self):
        return f'n{self.label}'


class Model:
    '''Mathematical graph: ordered node list (identity) + edge set.'''

    def __init__(self, nodes=(), edges=()):
        self.nodes = list(nodes)
        self.edges = set(edges)      # (id(a), id(b)): a depends on b

    def copy(self):
        return Model(self.nodes, self.edges)

    def has(self, node):
        return any(n is node for n in self.nodes)

    def add_node(self, node):
        if not self.has(node):
            self.nodes.append(node)

    def remove_node(self, node):
        self.nodes = [n for n in self.nodes if n is not node]
        self.edges = {(a, b) for a, b in self.edges
                      if a != id(node) and b != id(node)}

    def add_edge(self, node, dep):
        self.add_node(node)
        self.add_node(dep)
        self.edges.add((id(node), id(dep)))

    def deps(self, node):
        return {b for a, b in self.edges if a == id(node)}

    def dependees(self, node):
        return {a for a, b in self.edges if b == id(node)}

    def merge(self, other):
        for node in other.nodes:
            self.add_node(node)
        self.edges |= other.edges

    def invert(self):
        return Model(self.nodes, {(b, a) for a, b in self.edges})

    def graft(self, node, sub):
        '''Replace the node `node` (a nested graph whose content is the
        model `sub`) by its content: what depended on it depends on its
        initial nodes, its terminal nodes depend on what it depended on; an
        empty one is transparent.'''
        deps = self.deps(node) - {id(node)}
        dees = self.dependees(node) - {id(node)}
        self.remove_node(node)
        self.merge(sub)
        inits = [id(n) for n in sub.nodes if not sub.dependees(n)]
        terms = [id(n) for n in sub.nodes if not sub.deps(n)]
        self.edges |= {(t, d) for t in terms for d in deps}
        self.edges |= {(e, i) for e in dees for i in inits}
        if not sub.nodes:
            self.edges |= {(e, d) for e in dees for d in deps}

    def reach(self):
        '''id -> set of ids reachable by >= 1 edge.'''
        adj = {id(n): set() for n in self.nodes}
        for a, b in self.edges:
            adj[a].add(b)
        out = {}
        for start in adj:
            seen, stack = set(), list(adj[start])
            while stack:
                cur = stack.pop()
                if cur in seen:
                    continue
                seen.add(cur)
                stack.extend(adj[cur])
            out[start] = seen
        return out

    def cyclic(self):
        return any(k in v for k, v in self.reach().items())


def ids(seq):
    return sorted(id(x) for x in seq)


def compare(graph, model, rec, case, where, full=True):
    '''Compare every public query of `graph` with `model`.  Returns False on
    the first difference.'''
    # pylint: disable=too-many-return-statements,too-many-branches
    def bad(mech, msg):
        rec.violation(mech, f'{where}: {msg}', case)
        return False
    try:
        gnodes = list(graph.nodes())
        if not contracts.rlist_index_consistent(graph.nodes()):
            return bad('rlist-invariant', 'reverse index of the node list '
                       'does not mirror the sequence')
        if ids(gnodes) != ids(model.nodes):
            return bad('nodes', f'nodes() {gnodes} expected {model.nodes}')
        if len(graph) != len(model.nodes):
            return bad('len', f'{len(graph)} vs {len(model.nodes)}')
        for node in model.nodes:
            if node not in graph:
                return bad('contains', f'{node} not in graph')
            got = graph.dependencies(node)
            if len(got) != len(set(map(id, got))) or \
                    set(map(id, got)) != model.deps(node):
                return bad('dependencies', f'dependencies({node}) = {got}')
            if set(map(id, graph[node])) != model.deps(node):
                return bad('getitem', f'graph[{node}]')
            got = graph.dependees(node)
            if set(map(id, got)) != model.dependees(node) or \
                    len(got) != len(set(map(id, got))):
                return bad('dependees', f'dependees({node}) = {got}')
        rec.count('queries_checked', 3 * len(model.nodes) + 2)
        if not full:
            return True
        pairs = list(graph)
        if ids(k for k, _ in pairs) != ids(model.nodes):
            return bad('iter', 'iteration keys differ')
        for key, vals in pairs:
            if set(map(id, vals)) != model.deps(key):
                return bad('iter', f'iteration values of {key}')
        try:
            as_dict = dict(graph)
            if len(as_dict) != len(model.nodes):
                return bad('dict', 'dict(graph) size')
        except TypeError:
            pass    # unhashable nodes (nested graphs define __eq__)
        inits = {id(n) for n in graph.initial()}
        if inits != {id(n) for n in model.nodes
                     if not model.dependees(n)}:
            return bad('initial', f'initial() = {graph.initial()}')
        terms = {id(n) for n in graph.terminal()}
        if terms != {id(n) for n in model.nodes if not model.deps(n)}:
            return bad('terminal', f'terminal() = {graph.terminal()}')
        reach = model.reach()
        for node in model.nodes:
            got = graph.dependencies(node, recurse=True)
            if set(map(id, got)) != reach[id(node)]:
                return bad('dependencies-recurse', f'{node}: {got}')
        rec.count('queries_checked', len(model.nodes) + 3)
    except contracts.InvariantBroken as err:
        return bad('rlist-invariant', str(err))
    except Exception as err:  # pylint: disable=broad-except
        return bad('query-raised-' + type(err).__name__, repr(err))
    return True


def check_toposort(graph, model, rec, case, where):
    from valjean.cosette.depgraph import DepGraphError
    cyc = model.cyclic()
    try:
        order = graph.topological_sort()
    except DepGraphError:
        if not cyc:
            rec.violation('toposort-false-cycle', f'{where}: raised on an '
                          'acyclic graph', case)
        rec.count('toposorts_checked')
        return
    except RecursionError:
        rec.count('toposort_recursion_limit')
        return
    except Exception as err:  # pylint: disable=broad-except
        rec.violation('toposort-raised-' + type(err).__name__,
                      f'{where}: {err!r}', case)
        return
    rec.count('toposorts_checked')
    if cyc:
        rec.violation('toposort-missed-cycle', f'{where}: returned {order} '
                      'for a cyclic graph', case)
        return
    if ids(order) != ids(model.nodes):
        rec.violation('toposort-nodes', f'{where}: {order} is not a '
                      'permutation of the nodes', case)
        return
    pos = {id(n): i for i, n in enumerate(order)}
    for a, b in model.edges:
        if pos[a] < pos[b]:
            rec.violation('toposort-order', f'{where}: a node appears before '
                          f'one of its dependencies in {order}', case)
            return


def check_algorithms(graph, model, rec, case, where):
    '''Reduction, closure, depends on an acyclic graph (on copies).'''
    reach = model.reach()
    try:
        red = graph.copy().transitive_reduction()
        clo = graph.copy().transitive_closure()
        red_m = Model(model.nodes, {(id(k), id(v)) for k, vs in red
                                    for v in vs})
        clo_m = Model(model.nodes, {(id(k), id(v)) for k, vs in clo
                                    for v in vs})
        if ids(red.nodes()) != ids(model.nodes) or \
                ids(clo.nodes()) != ids(model.nodes):
            rec.violation('algorithm-nodes', f'{where}: node set changed',
                          case)
            return
        if red_m.reach() != reach:
            rec.violation('reduction-reachability', f'{where}: reduction '
                          f'changed reachability: {red}', case)
        # minimal: an edge (a, b) is needed iff no other path a -> b
        needed = set()
        for a, b in model.edges:
            others = {c for (x, c) in model.edges if x == a and c != b}
            if not any(b == c or b in reach[c] for c in others):
                needed.add((a, b))
        if red_m.edges != needed and red_m.reach() == reach:
            rec.violation('reduction-not-minimal', f'{where}: {red}', case)
        if clo_m.edges != {(a, b) for a, bs in reach.items() for b in bs}:
            rec.violation('closure', f'{where}: closure edges differ from '
                          f'reachability: {clo}', case)
        for n_1, n_2 in itertools.product(model.nodes, repeat=2):
            d_dir = graph.depends(n_1, n_2)
            d_rec = graph.depends(n_1, n_2, recurse=True)
            if bool(d_dir) != ((id(n_1), id(n_2)) in model.edges):
                rec.violation('depends-direct', f'{where}: depends({n_1}, '
                              f'{n_2}) = {d_dir}', case)
                return
            if bool(d_rec) != (id(n_2) in reach[id(n_1)]):
                rec.violation('depends-recurse', f'{where}: depends({n_1}, '
                              f'{n_2}, recurse=True) = {d_rec}', case)
                return
        # subgraph relations
        if not (red <= graph and graph <= clo and graph == graph.copy()):
            rec.violation('subgraph-relation', f'{where}: reduction <= graph '
                          '<= closure does not hold', case)
        rec.count('algorithms_checked')
    except contracts.InvariantBroken as err:
        rec.violation('rlist-invariant', f'{where}: {err}', case)
    except Exception as err:  # pylint: disable=broad-except
        rec.violation('algorithm-raised-' + type(err).__name__,
                      f'{where}: {err!r}', case)


# ---- exhaustive part ---------------------------------------------------------
def build_two_ways(num, edges):
    from valjean.cosette.depgraph import DepGraph
    nodes = [Node(i) for i in range(num)]
    dct = {nodes[i]: [nodes[j] for (a, j) in edges if a == i]
           for i in range(num)}
    g_1 = DepGraph.from_dependency_dictionary(dct)
    g_2 = DepGraph()
    for node in reversed(nodes):
        g_2.add_node(node)
    for a, b in edges:
        g_2.add_dependency(nodes[a], on=nodes[b])
    model = Model(nodes, {(id(nodes[a]), id(nodes[b])) for a, b in edges})
    return g_1, g_2, model


def run_exhaustive(spec, rec):
    num = spec['n']
    pairs = [(a, b) for a in range(num) for b in range(num) if a != b]
    lo, hi = spec['lo'], spec['hi']
    dags_only = spec.get('dags_only', False)
    skip_cyclic = spec.get('skip_cyclic', False)
    for code in range(lo, hi):
        edges = [pairs[k] for k in range(len(pairs)) if code >> k & 1]
        if skip_cyclic and _cyclic_bits(num, edges):
            rec.count('cyclic_codes_skipped')
            continue
        case = {'exhaustive': True, 'n': num, 'code': code}
        where = f'n={num} edges={edges}'
        g_1, g_2, model = build_two_ways(num, edges)
        cyc = model.cyclic()
        rec.count('evaluations')
        check_toposort(g_1, model, rec, case, where)
        if dags_only and cyc:
            continue
        ok_1 = compare(g_1, model, rec, case, where + ' (from dict)')
        ok_2 = compare(g_2, model, rec, case, where + ' (incremental)')
        rec.count('steps_checked')
        if not (g_1 == g_2 and g_2 == g_1 and g_1 <= g_2):
            rec.violation('equality', f'{where}: two constructions of the '
                          'same graph are not equal', case)
        if ok_1 and ok_2:
            check_toposort(g_2, model, rec, case, where)
            if not cyc:
                check_algorithms(g_1, model, rec, case, where)
                # removal of each node, on a copy
                for victim in model.nodes:
                    cop = g_2.copy()
                    cmod = model.copy()
                    cop.remove_node(victim)
                    cmod.remove_node(victim)
                    compare(cop, cmod, rec, case,
                            where + f' remove_node({victim})', full=False)
                compare(g_2, model, rec, case, where + ' after copy edits',
                        full=False)
                rec.count('copies_rechecked')
        if edges:
            rec.seen((num, code))
        if code % 4099 == 0:
            rec.sample({'n': num, 'edges': edges, 'cyclic': cyc})
    what = 'digraphs' if not skip_cyclic else 'dags'
    rec.exhaustive[f'all_{what}_n={num}'] = True


def _cyclic_bits(num, edges):
    '''Cheap acyclicity test (Kahn) on a tiny edge list.'''
    indeg = [0] * num
    for _, b in edges:
        indeg[b] += 1
    todo = [i for i in range(num) if indeg[i] == 0]
    seen = 0
    while todo:
        cur = todo.pop()
        seen += 1
        for a, b in edges:
            if a == cur:
                indeg[b] -= 1
                if indeg[b] == 0:
                    todo.append(b)
    return seen != num


# ---- random histories --------------------------------------------------------
def virtual_reach(outer):
    '''Reference for flatten: reachability among plain nodes in the graph
    where every graph-node G is replaced by virtual start/end nodes.
    `outer` is a Model whose nodes may be (real DepGraph, Model) pairs
    registered in NESTED.'''
    adj = {}

    def add(a, b):
        adj.setdefault(a, set()).add(b)
        adj.setdefault(b, set())

    def expand(model, nested):
        # returns nothing; adds edges between ids
        def ends(node):
            # (in-id, out-id): dependees attach to `in`, deps leave `out`
            if id(node) in nested:
                return ('end', id(node)), ('start', id(node))
            return id(node), id(node)
        for node in model.nodes:
            adj.setdefault(ends(node)[0], set())
            if id(node) in nested:
                sub, sub_nested = nested[id(node)]
                add(('end', id(node)), ('start', id(node)))
                for mem in sub.nodes:
                    m_in, m_out = (('end', id(mem)), ('start', id(mem))) \
                        if id(mem) in sub_nested else (id(mem), id(mem))
                    add(('end', id(node)), m_in)
                    add(m_out, ('start', id(node)))
                expand(sub, sub_nested)
        byid = {id(n): n for n in model.nodes}
        for a, b in model.edges:
            add(ends(byid[a])[1], ends(byid[b])[0])
    expand(outer['model'], outer['nested'])
    out = {}
    cyclic = False
    for start in adj:
        seen, stack = set(), list(adj[start])
        while stack:
            cur = stack.pop()
            if cur in seen:
                continue
            seen.add(cur)
            stack.extend(adj[cur])
        if start in seen:
            # also through virtual nodes only: a shared (possibly empty)
            # sub-graph that must come after itself
            cyclic = True
        if not isinstance(start, tuple):
            out[start] = {x for x in seen if not isinstance(x, tuple)}
    return out, cyclic


def random_dag_model(rng, pool, maxn):
    '''Random acyclic sub-graph over distinct nodes of `pool`.'''
    num = rng.randint(0, maxn)
    nodes = rng.sample(pool, min(num, len(pool)))
    edges = set()
    for i, a in enumerate(nodes):
        for b in nodes[:i]:
            if rng.random() < 0.4:
                edges.add((id(a), id(b)))
    return Model(nodes, edges)


def to_graph(model, nested=None):
    '''Real DepGraph with the nodes/edges of `model`.'''
    from valjean.cosette.depgraph import DepGraph
    graph = DepGraph()
    byid = {id(n): n for n in model.nodes}
    for node in model.nodes:
        graph.add_node(node)
    posn = {id(n): i for i, n in enumerate(model.nodes)}
    for a, b in sorted(model.edges, key=lambda e: (posn[e[0]], posn[e[1]])):
        graph.add_dependency(byid[a], on=byid[b])
    return graph


def run_history(seed, idx, rec):
    # pylint: disable=too-many-locals,too-many-branches,too-many-statements
    from valjean.cosette.depgraph import DepGraph
    rng = core.rng_for(seed, PROP, idx)
    case = {'seed': seed, 'idx': idx}
    pool = [Node(i) for i in range(rng.randint(2, 9))]
    frozen = []          # (graph, model copy, label): must never change
    subs = {}            # id(nested graph used as a node) -> its model
    if rng.random() < 0.3:
        # nested graphs used as nodes: two empty ones (equal, distinct), a
        # flat one over plain nodes of the pool and its look-alike
        flat = random_dag_model(rng, pool, 3)
        for sub_m in (Model(), Model(), flat, flat.copy()):
            sub_g = to_graph(sub_m)
            subs[id(sub_g)] = sub_m
            pool.append(sub_g)
            frozen.append((sub_g, sub_m.copy(), 'graph used as a node'))
        rec.count('histories_with_graph_nodes')
    graph, model = DepGraph(), Model()
    ops = []
    nsteps = rng.randint(3, 40)
    for step in range(nsteps):
        opn = rng.choice(['add_node', 'add_dep', 'add_dep', 'add_dep',
                          'remove_node', 'remove_dep', 'copy', 'merge',
                          'plus', 'invert', 'remove_missing', 'closure',
                          'reduce', 'add_self', 'graft'])
        ops.append(opn)
        where = f'step {step} {opn} (ops={ops[-6:]})'
        try:
            if opn == 'add_node':
                node = rng.choice(pool)
                graph.add_node(node)
                model.add_node(node)
            elif opn == 'add_dep':
                a, b = rng.sample(pool, 2)
                graph.add_dependency(a, on=b)
                model.add_edge(a, b)
            elif opn == 'add_self':
                # a node that depends on itself (possibly its first
                # appearance in the graph)
                node = rng.choice(pool)
                graph.add_dependency(node, on=node)
                model.add_edge(node, node)
            elif opn == 'graft':
                inside = [n for n in model.nodes if id(n) in subs
                          and (id(n), id(n)) not in model.edges]
                if not inside:
                    continue
                node = inside[rng.randrange(len(inside))]
                frozen.append((graph, model.copy(), f'pre-graft@{step}'))
                graph = graph.copy()
                res = graph.graft(node)
                model = model.copy()
                model.graft(node, subs[id(node)])
                if res is not graph:
                    rec.violation('graft-returned-other-object', where, case)
                rec.count('grafts_in_histories')
            elif opn == 'remove_node':
                node = rng.choice(pool)
                graph.remove_node(node)
                model.remove_node(node)
            elif opn == 'remove_dep':
                if not model.edges:
                    continue
                byid = {id(n): n for n in model.nodes}
                posn = {id(n): i for i, n in enumerate(model.nodes)}
                a, b = rng.choice(sorted(model.edges, key=lambda e: (
                    posn[e[0]], posn[e[1]])))
                graph.remove_dependency(byid[a], on=byid[b])
                model.edges.discard((a, b))
            elif opn == 'remove_missing':
                if len(model.nodes) < 2:
                    continue
                a, b = rng.sample(model.nodes, 2)
                if (id(a), id(b)) in model.edges:
                    continue
                try:
                    graph.remove_dependency(a, on=b)
                    rec.violation('remove-missing-edge-accepted', where, case)
                except KeyError:
                    pass
            elif opn == 'copy':
                frozen.append((graph, model.copy(), f'original@{step}'))
                graph = graph.copy()
                # the old object stays frozen; the copy goes on
            elif opn in ('merge', 'plus'):
                other_m = random_dag_model(rng, pool, 4)
                other = to_graph(other_m)
                frozen.append((other, other_m.copy(), f'merged-in@{step}'))
                if opn == 'merge':
                    if rng.random() < 0.5:
                        graph.merge(other)
                    else:
                        graph += other
                    model.merge(other_m)
                else:
                    frozen.append((graph, model.copy(), f'lhs@{step}'))
                    graph = graph + other
                    model = model.copy()
                    model.merge(other_m)
            elif opn in ('closure', 'reduce'):
                # in place, on the very object that has been queried so far
                if model.cyclic() or any(id(n) in subs for n in model.nodes):
                    continue
                reach = model.reach()
                if opn == 'closure':
                    res = graph.transitive_closure()
                    model.edges = {(a, b) for a, bs in reach.items()
                                   for b in bs}
                else:
                    res = graph.transitive_reduction()
                    model.edges = {
                        (a, b) for a, b in model.edges
                        if not any(b in reach[c] for (x, c) in model.edges
                                   if x == a and c != b)}
                if res is not graph:
                    rec.violation('in-place-algorithm-returned-other-object',
                                  where, case)
                rec.count('in_place_closure_reduction')
            elif opn == 'invert':
                frozen.append((graph, model.copy(), f'pre-invert@{step}'))
                graph = graph.invert()
                model = model.invert()
        except contracts.InvariantBroken as err:
            rec.violation('rlist-invariant', f'{where}: {err}', case)
            return
        except Exception as err:  # pylint: disable=broad-except
            rec.violation('edit-raised-' + type(err).__name__,
                          f'{where}: {err!r}', case)
            return
        if not compare(graph, model, rec, case, where, full=step % 3 == 0):
            return
        rec.count('steps_checked')
        for old_g, old_m, label in frozen[-3:]:
            if not compare(old_g, old_m, rec, case,
                           f'{where}: earlier graph {label}', full=False):
                rec.violation('copy-not-independent', f'{where}: {label} '
                              'changed when its copy/derivative was edited',
                              case)
                return
            rec.count('copies_rechecked')
    if not any(id(n) in subs for n in model.nodes):
        # (nested graphs are not hashable: the sort and the algorithms are
        # only claimed for hashable nodes)
        check_toposort(graph, model, rec, case, f'end of history ops={ops}')
        if not model.cyclic() and len(model.nodes) <= 7:
            check_algorithms(graph, model, rec, case, 'end of history')
    for old_g, old_m, label in frozen:
        compare(old_g, old_m, rec, case, f'end: earlier graph {label}',
                full=False)
    rec.count('evaluations')
    if model.edges:
        rec.seen((len(model.nodes), len(model.edges), core.h(ops)))
    if idx % 307 == 0:
        rec.sample({'case': case, 'ops': ops, 'nodes': len(model.nodes),
                    'edges': len(model.edges)})


def run_flatten(seed, idx, rec):
    '''Nested graphs: graft / flatten against the virtual-node reference.'''
    # pylint: disable=too-many-locals
    rng = core.rng_for(seed, PROP, 'flatten', idx)
    case = {'seed': seed, 'idx': idx, 'flatten': True}
    pool = [Node(i) for i in range(rng.randint(3, 8))]

    def make(depth):
        '''Returns (real graph, spec dict).'''
        members = list(rng.sample(pool, rng.randint(0, min(4, len(pool)))))
        nested = {}
        if depth < 2:
            for _ in range(rng.choice([0, 1, 1, 2])):
                size = rng.choice(['empty', 'one', 'many'])
                if created and rng.random() < 0.4:
                    # the very same sub-graph object used as a node in a
                    # second place (another level or another sub-graph)
                    sub_g, sub_spec = rng.choice(created)
                    if any(sub_g is mem for mem in members):
                        continue
                    shared.append((sub_g, sub_spec))
                elif created and rng.random() < 0.2 and \
                        not created[-1][1]['nested']:
                    # a look-alike: another object with the same content as
                    # an earlier (flat) sub-graph
                    sub_spec = {'model': created[-1][1]['model'].copy(),
                                'nested': {}}
                    sub_g = to_graph(sub_spec['model'])
                    created.append((sub_g, sub_spec))
                    twins.append(sub_g)
                else:
                    sub_g, sub_spec = make_sub(depth + 1, size)
                    created.append((sub_g, sub_spec))
                members.append(sub_g)
                nested[id(sub_g)] = (sub_spec['model'], sub_spec['nested'])
        rng.shuffle(members)
        edges = set()
        for i, a in enumerate(members):
            for b in members[:i]:
                if rng.random() < 0.5:
                    edges.add((id(a), id(b)))
        model = Model(members, edges)
        return to_graph(model), {'model': model, 'nested': nested}

    def make_sub(depth, size):
        if size == 'empty':
            from valjean.cosette.depgraph import DepGraph
            return DepGraph(), {'model': Model(), 'nested': {}}
        graph, spec = make(depth)
        if size == 'one':
            keep = [n for n in spec['model'].nodes
                    if id(n) not in spec['nested']][:1]
            model = Model(keep, set())
            return to_graph(model), {'model': model, 'nested': {}}
        return graph, spec

    created, shared, twins = [], [], []
    graph, spec = make(0)
    if not spec['nested']:
        return
    def has_plain(sub_spec):
        return any(id(n) not in sub_spec['nested']
                   or has_plain({'model': sub_spec['nested'][id(n)][0],
                                 'nested': sub_spec['nested'][id(n)][1]})
                   for n in sub_spec['model'].nodes)
    if any(not has_plain(sub_spec) for _, sub_spec in shared):
        # a sub-graph without any plain node used in two places: whether
        # the two occurrences are one transparent node or two is not defined
        # by "the ordering constraints between plain nodes" (the real
        # flatten resolves each occurrence on its own)
        rec.count('flatten_cases_skipped_shared_empty_subgraph')
        return
    if shared:
        rec.count('flatten_cases_with_shared_subgraph_object')
    if twins:
        rec.count('flatten_cases_with_look_alike_subgraphs')
    sizes = sorted(len(sub.nodes) for sub, _ in spec['nested'].values())

    def any_empty(nested):
        return any(not sub.nodes or any_empty(sub_n)
                   for sub, sub_n in nested.values())
    where = (f'flatten: {len(spec["model"].nodes)} outer nodes, nested sizes '
             f'{sizes}')
    expect, cyclic = virtual_reach(spec)
    if cyclic:
        rec.count('flatten_cases_skipped_cyclic')
        return     # cyclic through shared members: outside the quantifier
    try:
        flat = graph.copy().flatten()
    except contracts.InvariantBroken as err:
        rec.violation('rlist-invariant', f'{where}: {err}', case)
        return
    except Exception as err:  # pylint: disable=broad-except
        rec.violation('flatten-raised-' + type(err).__name__,
                      f'{where}: {err!r}', case)
        return
    # flattening a copy leaves the original and every nested graph as it was
    if compare(graph, spec['model'], rec, case,
               f'{where}: original after flatten() of its copy', full=False):
        for sub_g, sub_spec in created:
            if not compare(sub_g, sub_spec['model'], rec, case,
                           f'{where}: nested graph after flatten() of the '
                           'outer copy', full=False):
                break
            rec.count('nested_graphs_rechecked_after_flatten')
    from valjean.cosette.depgraph import DepGraph
    left = [n for n in flat.nodes() if isinstance(n, DepGraph)]
    if left:
        rec.violation('flatten-left-graph-nodes', where, case)
        return
    fmod = Model(list(flat.nodes()), {(id(k), id(v)) for k, vs in flat
                                      for v in vs})
    got = fmod.reach()
    plain = set(expect)
    if set(got) != plain:
        rec.violation('flatten-nodes', f'{where}: plain nodes differ', case)
        return
    lost = [(a, b) for a in plain for b in expect[a] - got[a]]
    extra = [(a, b) for a in plain for b in got[a] - expect[a]]
    byid = {id(n): n for n in flat.nodes()}
    if lost:
        mech = 'flatten-lost-constraint'
        if any_empty(spec['nested']):
            mech = 'flatten-lost-constraint-empty-subgraph'
        rec.violation(mech, f'{where}: {byid[lost[0][0]]} must come after '
                      f'{byid[lost[0][1]]} in the nested graph but not in '
                      'the flattened one', case)
    elif extra:
        rec.violation('flatten-extra-constraint', f'{where}: '
                      f'{byid[extra[0][0]]} after {byid[extra[0][1]]} only in '
                      'the flattened graph', case)
    rec.count('flatten_checked')
    rec.count('evaluations')
    rec.seen(('flatten', len(plain), sizes, len(fmod.edges)))
    if idx % 211 == 0:
        rec.sample({'case': case, 'outer_nodes': len(spec['model'].nodes),
                    'nested_sizes': sizes, 'flat_edges': len(fmod.edges)})


def plan(tier, seed):
    specs = []
    nrand = 1500 if tier == 'quick' else 40000
    for i, (lo, hi) in enumerate(core.split(nrand, 6)):
        specs.append({'prop': PROP, 'kind': 'history', 'seed': seed, 'lo': lo,
                      'hi': hi, 'hashseed': 11 + i + seed})
    nflat = 3000 if tier == 'quick' else 80000
    for i, (lo, hi) in enumerate(core.split(nflat, 3)):
        specs.append({'prop': PROP, 'kind': 'flatten', 'seed': seed, 'lo': lo,
                      'hi': hi, 'hashseed': 23 + i + seed})
    ncon = 150 if tier == 'quick' else 4000
    for i, (lo, hi) in enumerate(core.split(ncon, 2)):
        specs.append({'prop': PROP, 'kind': 'history-contract', 'seed': seed,
                      'lo': nrand + lo, 'hi': nrand + hi,
                      'hashseed': 31 + i + seed})
    for num in (1, 2, 3, 4):
        specs.append({'prop': PROP, 'kind': 'exhaustive', 'n': num, 'lo': 0,
                      'hi': 2 ** (num * (num - 1)), 'hashseed': 0})
    parts = 6 if tier == 'quick' else 32
    for lo, hi in core.split(2 ** 20, parts):
        specs.append({'prop': PROP, 'kind': 'exhaustive', 'n': 5, 'lo': lo,
                      'hi': hi, 'dags_only': True, 'hashseed': 0,
                      'skip_cyclic': tier == 'quick'})
    if tier == 'thorough':
        # the repository's own tests with the contracts switched on
        specs.append({'prop': PROP, 'tier': tier, 'seed': seed,
                      'shard': 9000, 'mode': 'repo-tests',
                      'hashseed': 0})
    return specs


def run(spec, rec):
    if spec.get('mode') == 'repo-tests':
        core.repo_tests_under_contracts(['RList'],
                                        ['tests/cosette/test_depgraph.py', 'tests/cosette/test_rlist.py', 'valjean/cosette/depgraph.py', 'valjean/cosette/rlist.py', 'tests/cosette/test_scheduler.py'],
                                        rec, {'mode': 'repo-tests'})
        for name in DECIDING:
            rec.count(name, 0)
        return
    warnings.simplefilter('ignore')
    import sys
    sys.setrecursionlimit(10000)
    if spec['kind'] == 'history-contract':
        contracts.install(['RList'])
    if spec['kind'] == 'exhaustive':
        run_exhaustive(spec, rec)
    elif spec['kind'] == 'flatten':
        for idx in range(spec['lo'], spec['hi']):
            run_flatten(spec['seed'], idx, rec)
    else:
        for idx in range(spec['lo'], spec['hi']):
            run_history(spec['seed'], idx, rec)
    rec.counters['rlist_invariant_evals'] = contracts.EVALS.get(
        'RList.index', 0)


def replay(case, rec):
    warnings.simplefilter('ignore')
    contracts.install(['RList'])
    if case.get('exhaustive'):
        run_exhaustive({'n': case['n'], 'lo': case['code'],
                        'hi': case['code'] + 1}, rec)
    elif case.get('flatten'):
        run_flatten(case['seed'], case['idx'], rec)
    else:
        run_history(case['seed'], case['idx'], rec)
