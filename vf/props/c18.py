'''C18 -- diagnostic statistics count every task and every test result exactly
once.

Monitor: the classification produced by the real TestStatsTasks,
TestStatsTests and TestStatsTestsByLabels on generated collections is compared
with a recount made directly from the inputs.'''
import warnings
from collections import Counter

import numpy as np

from vf import core, snapshot

PROP = 'C18'
LEVEL = 'exploration'
RULE = ('random collections of 1-30 task entries with any status, with or '
        'without a result list of 0-5 real TestResult objects (chosen '
        'verdicts, label dictionaries over string values, repeated names), '
        'summarised by task status, by test outcome and by 1-3 requested '
        'labels in any order; distinct by (kind, multiset of statuses / '
        'outcomes / label combinations); non-trivial when at least two '
        'different classes are populated')
DECIDING = ['task_summaries_checked', 'test_summaries_checked',
            'label_summaries_checked']
ASSUMPTIONS = ['label values are strings (the statement); result lists hold '
               'TestResult objects only',
               'the vacuous case (nothing observed) is not claimed either '
               'way']

LABELS = {'day': ['Mon', 'Tue', 'Wed'], 'meal': ['lunch', 'dinner'],
          'cook': ['Terry', 'John', 'Eric', 'Graham', '']}


def plan(tier, seed):
    return core.std_plan(PROP, tier, seed, quick=4000, thorough=100000)


def make_result(rng, name, verdict, labels):
    from valjean.eponine.dataset import Dataset
    from valjean.gavroche.test import TestEqual, TestApproxEqual
    val = rng.choice([1.0, 2.5, 7.0])
    ds1 = Dataset(np.float64(val), np.float64(0.1), name='a')
    ds2 = Dataset(np.float64(val if verdict else val + 1), np.float64(0.1),
                  name='b')
    cls = rng.choice([TestEqual, TestApproxEqual])
    res = cls(ds1, ds2, name=name, labels=labels).evaluate()
    assert bool(res) == verdict
    return res


def gen_case(rng):
    from valjean.cosette.task import TaskStatus
    ntasks = rng.choice([1, 2, 3, 5, 8, 13, 30])
    statuses = list(TaskStatus)
    style = rng.choice(['all_done', 'mixed', 'mixed', 'one_bad'])
    tasks = []
    all_ok = rng.random() < 0.3
    for i in range(ntasks):
        if style == 'all_done':
            status = TaskStatus.DONE
        elif style == 'one_bad':
            status = TaskStatus.DONE if i else rng.choice(statuses)
        else:
            status = rng.choice(statuses)
        entry = {'status': status}
        if rng.random() < 0.8:
            results = []
            for j in range(rng.choice([0, 1, 1, 2, 3, 5])):
                labels = {}
                for lab, vals in LABELS.items():
                    if rng.random() < 0.7:
                        labels[lab] = rng.choice(vals)
                if rng.random() < 0.08:
                    # labels are arbitrary: also names that look internal
                    labels[rng.choice(['_result', '_test_name', 'KO',
                                       'OK', 'total'])] = rng.choice(
                                           ['0', '1', 'x'])
                name = rng.choice([f't{i}_{j}', 'same', f'n{j}'])
                verdict = True if all_ok else rng.random() < 0.6
                results.append(make_result(rng, name, verdict, labels))
            entry['result'] = results
        tname = rng.choice([f'task{i}', f'task{i}', 'dup'])
        tasks.append((tname, entry))
    by_labels = tuple(rng.sample(sorted(LABELS), rng.randint(1, 3)))
    return tasks, by_labels


def names_of(lst):
    return Counter(str(x) for x in lst)


def helper_case(seed, idx, rec):
    '''The task_stats() helper on a list of tasks in which some appear twice
    and some only as dependencies: every task counted once.'''
    from valjean.cosette.task import DelayTask, TaskStatus
    from valjean.cosette.env import Env
    from valjean.config import Config
    from valjean.gavroche.diagnostics.stats import task_stats
    rng = core.rng_for(seed, PROP, 'helper', idx)
    case = {'seed': seed, 'idx': idx, 'helper': True}
    num = rng.randint(2, 7)
    tasks = [DelayTask(f'hc{seed}_{idx}_{i}', 0) for i in range(num)]
    for i, task in enumerate(tasks):
        for j in range(i):
            rnd = rng.random()
            if rnd < 0.2:
                task.depends_on.add(tasks[j])
            elif rnd < 0.3:
                task.soft_depends_on.add(tasks[j])
    listed = rng.sample(tasks, rng.randint(1, num))
    listed += rng.sample(listed, rng.randint(0, len(listed)))   # repeats
    rng.shuffle(listed)
    want, todo = set(), list(listed)
    while todo:
        task = todo.pop()
        if task.name not in want:
            want.add(task.name)
            todo.extend(task.depends_on)
            todo.extend(task.soft_depends_on)
    env = Env()
    statuses = {}
    for task in tasks:
        statuses[task.name] = rng.choice(list(TaskStatus))
        env[task.name] = {'status': statuses[task.name]}
    stats = task_stats(name=f'summary{seed}_{idx}', tasks=listed)
    create = next(iter(stats.depends_on))
    try:
        update, _ = create.do(env, Config())
        test = update[create.name]['result'][0]
        res = test.evaluate()
    except Exception as err:  # pylint: disable=broad-except
        rec.violation('task-stats-helper-raised-' + type(err).__name__,
                      repr(err), case)
        return
    rec.count('helper_summaries_checked')
    got = Counter()
    for status, names in res.classify.items():
        for name in names:
            got[(str(name), status)] += 1
    exp = Counter({(name, statuses[name]): 1 for name in want})
    if got != exp:
        twice = sorted(k[0] for k, v in got.items() if v > 1)
        rec.violation('task-classification', 'task_stats() helper on '
                      f'{[t.name for t in listed]}: listed twice {twice}, '
                      f'missing {sorted(set(exp) - set(got))[:4]}, '
                      f'unexpected {sorted(set(got) - set(exp))[:4]}', case)


def run_case(seed, idx, rec):
    # pylint: disable=too-many-locals,too-many-branches,too-many-statements
    from valjean.cosette.task import TaskStatus
    from valjean.gavroche.diagnostics import stats as vst
    rng = core.rng_for(seed, PROP, idx)
    case = {'seed': seed, 'idx': idx}
    tasks, by_labels = gen_case(rng)
    d_in = snapshot.digest(tasks)
    rec.count('evaluations')
    where = f'{len(tasks)} tasks'

    # 1. task statuses
    try:
        test = vst.TestStatsTasks(name='ts', task_results=tasks)
        res = test.evaluate()
        if idx % 2:
            res = test.evaluate()       # the same object evaluated again
            rec.count('second_evaluations_checked')
        classify = {k: list(v) for k, v in res.classify.items() if v}
        verdict = bool(res)
    except Exception as err:  # pylint: disable=broad-except
        rec.violation('task-stats-raised-' + type(err).__name__,
                      f'{where}: {err!r}', case)
        return
    exp = {}
    for name, entry in tasks:
        exp.setdefault(entry['status'], []).append(name)
    for status in set(exp) | set(classify):
        if names_of(classify.get(status, [])) != names_of(exp.get(status,
                                                                  [])):
            rec.violation('task-classification', f'{where}: status {status}: '
                          f'{classify.get(status)} expected '
                          f'{exp.get(status)}', case)
            break
    if sum(len(v) for v in classify.values()) != len(tasks):
        rec.violation('task-count', f'{where}: {sum(map(len, classify.values()))}'
                      f' listed for {len(tasks)} tasks', case)
    exp_verdict = set(exp) == {TaskStatus.DONE}
    if verdict != exp_verdict:
        rec.violation('task-verdict', f'{where}: verdict {verdict}, statuses '
                      f'{sorted(map(str, exp))}', case)
    rec.count('task_summaries_checked')

    # 2. test outcomes
    all_results = [(tname, r) for tname, entry in tasks
                   for r in entry.get('result', [])]
    missing = [tname for tname, entry in tasks if 'result' not in entry]
    try:
        test = vst.TestStatsTests(name='tt', task_results=tasks)
        res = test.evaluate()
        if idx % 2:
            res = test.evaluate()
            rec.count('second_evaluations_checked')
        classify = {k: list(v) for k, v in res.classify.items() if v}
        verdict = bool(res)
    except Exception as err:  # pylint: disable=broad-except
        rec.violation('test-stats-raised-' + type(err).__name__,
                      f'{where}: {err!r}', case)
        return
    out = vst.TestOutcome
    exp = {out.SUCCESS: [r.test.name for _, r in all_results if r],
           out.FAILURE: [r.test.name for _, r in all_results if not r],
           out.MISSING: missing}
    for outcome in list(out):
        if names_of(classify.get(outcome, [])) != names_of(exp.get(outcome,
                                                                   [])):
            rec.violation('test-classification', f'{where}: outcome '
                          f'{outcome.name}: {classify.get(outcome)} expected '
                          f'{exp.get(outcome)}', case)
            break
    if all_results or missing:
        exp_verdict = (bool(exp[out.SUCCESS]) and not exp[out.FAILURE]
                       and not missing)
        if verdict != exp_verdict:
            rec.violation('test-verdict', f'{where}: verdict {verdict} with '
                          f'{len(exp[out.SUCCESS])} successes, '
                          f'{len(exp[out.FAILURE])} failures, {len(missing)} '
                          'missing', case)
    rec.count('test_summaries_checked')

    # 3. by labels
    exp_comb = {}
    n_missing = 0
    for _, result in all_results:
        labels = result.test.labels or {}
        if all(lab in labels for lab in by_labels):
            key = tuple(labels[lab] for lab in by_labels)
            ent = exp_comb.setdefault(key, [0, 0])
            ent[0 if result else 1] += 1
        else:
            n_missing += 1
    present = {lab for _, r in all_results for lab in (r.test.labels or {})}
    try:
        res = vst.TestStatsTestsByLabels(name='tl', task_results=tasks,
                                         by_labels=by_labels).evaluate()
    except vst.TestStatsTestsByLabelsException:
        if set(by_labels) <= present:
            rec.violation('labels-exception', f'{where}: by_labels '
                          f'{by_labels} all present but exception raised',
                          case)
        rec.count('label_requests_rejected')
        res = None
    except Exception as err:  # pylint: disable=broad-except
        rec.violation('label-stats-raised-' + type(err).__name__,
                      f'{where} by_labels={by_labels}: {err!r}', case)
        return
    if res is not None:
        if not set(by_labels) <= present:
            rec.violation('labels-no-exception', f'{where}: by_labels '
                          f'{by_labels} not all present, no exception', case)
        got = {}
        for ent in res.classify:
            if ent['labels'] in got:
                rec.violation('label-combination-twice', f'{where}: '
                              f'{ent["labels"]}', case)
            got[ent['labels']] = ent
            if ent['OK'] + ent['KO'] != ent['total']:
                rec.violation('label-ok-ko-total', f'{where}: {ent}', case)
        for key in set(got) | set(exp_comb):
            g_e = got.get(key)
            x_e = exp_comb.get(key)
            if g_e is None or x_e is None or (g_e['OK'], g_e['KO']) != tuple(
                    x_e):
                rec.violation('label-classification', f'{where} by_labels='
                              f'{by_labels}: combination {key}: {g_e} '
                              f'expected OK/KO {x_e}', case)
                break
        if res.nb_missing_labels() != n_missing:
            rec.violation('label-missing-count', f'{where}: '
                          f'{res.nb_missing_labels()} expected {n_missing}',
                          case)
        if sum(e['total'] for e in res.classify) + res.nb_missing_labels() \
                != len(all_results):
            rec.violation('label-conservation', f'{where}', case)
        oracles = list(res.oracles())
        if oracles != [e['OK'] == e['total'] for e in res.classify]:
            rec.violation('label-oracles', where, case)
        if exp_comb:
            exp_verdict = all(ko == 0 for _, ko in exp_comb.values())
            if bool(res) != exp_verdict:
                rec.violation('label-verdict', f'{where}: {bool(res)}', case)
        # order of labels: the same partition, permuted
        if len(by_labels) > 1:
            rev = tuple(reversed(by_labels))
            try:
                res2 = vst.TestStatsTestsByLabels(
                    name='tl', task_results=tasks, by_labels=rev).evaluate()
                got2 = {tuple(reversed(e['labels'])): (e['OK'], e['KO'])
                        for e in res2.classify}
                if got2 != {k: tuple(v) for k, v in exp_comb.items()}:
                    rec.violation('label-order-dependent', f'{where}: '
                                  f'{by_labels} vs {rev}', case)
            except Exception as err:  # pylint: disable=broad-except
                rec.violation('label-stats-raised-' + type(err).__name__,
                              f'{where} by_labels={rev}: {err!r}', case)
        rec.count('label_summaries_checked')
    if snapshot.digest(tasks) != d_in:
        rec.violation('inputs-modified', where, case)
    sig = (sorted(Counter(str(e['status']) for _, e in tasks).items()),
           len(exp[out.SUCCESS]), len(exp[out.FAILURE]), len(missing),
           by_labels, sorted((k, tuple(v)) for k, v in exp_comb.items()))
    if len(exp_comb) > 1 or (exp[out.SUCCESS] and exp[out.FAILURE]):
        rec.seen(sig)
    if idx % 499 == 0:
        rec.sample({'case': case, 'tasks': len(tasks),
                    'results': len(all_results), 'missing': len(missing),
                    'by_labels': by_labels,
                    'combinations': {str(k): v
                                     for k, v in exp_comb.items()}})


def run(spec, rec):
    for idx in range(spec['lo'], spec['hi']):
        if idx % 5 == 0:
            helper_case(spec['seed'], idx, rec)
    warnings.simplefilter('ignore')
    for idx in range(spec['lo'], spec['hi']):
        run_case(spec['seed'], idx, rec)


def replay(case, rec):
    if case.get('helper'):
        helper_case(case['seed'], case['idx'], rec)
        return
    warnings.simplefilter('ignore')
    run_case(case['seed'], case['idx'], rec)
