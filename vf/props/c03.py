'''C03 -- scheduling always terminates and leaves no worker thread behind.

Monitor: under the cooperative controller a deadlock is observed exactly (some
thread unfinished, no parked thread enabled); after ``schedule()`` returned or
raised the remaining threads are run to quiescence and the census of
unfinished worker threads and the state of the work queue are taken.  The
stress layer takes the same census with the real primitives, and driver
processes that only call ``schedule()`` must exit.'''
import os
import subprocess
import sys
import tempfile

from vf import core
from vf.sched import controller as C
from vf.sched import harness as H

PROP = 'C03'
LEVEL = 'exploration'
RULE = ('random DAGs and cyclic graphs (self loop, 2-cycle, cycle behind a '
        'DAG prefix, cycle through soft edges only) of 1-8 (thorough 1-20) '
        'probe tasks, every outcome kind including malformed and non-final '
        'return values, initial environments empty or holding DONE / FAILED '
        '/ SKIPPED entries for random subsets, workers in {1,2,3,4,8,16}; '
        'several controlled schedules (random walk, PCT) per case, a share '
        'in the stress layer and as driver child processes; distinct = '
        'distinct (case class, schedule trace), case class = (cyclic?, '
        'initial entries?, kinds of failure)')
DECIDING = ['controlled_runs', 'census_taken', 'cyclic_cases',
            'initial_env_cases', 'stress_runs', 'driver_processes']
ASSUMPTIONS = ['deadlock = no enabled thread while one is unfinished, '
               'observed by the controller at its scheduling points',
               'in the stress layer a hang is reported only with logical '
               'evidence (all participants parked in blocking primitives and '
               'no recorded event over 4 samples); a bare wall-clock timeout '
               'is inconclusive']
SHARD_TIMEOUT = {'quick': 600, 'thorough': 3000}
KINDS = H.FAIL_KINDS + H.MALFORMED_KINDS + H.NONFINAL_KINDS


def plan(tier, seed):
    total = 6000 if tier == 'quick' else 40000
    specs = core.std_plan(PROP, tier, seed, quick=total, thorough=total,
                          mode='random')
    nstress = 3 if tier == 'quick' else 4
    for spec in specs[-nstress:]:
        spec['mode'] = 'stress'
        spec['lo'], spec['hi'] = 0, (10 if tier == 'quick' else 150)
    # every schedule with at most 2 preemptions of tiny graphs, for each
    # kind of outcome of the first task
    shapes = ['chain2'] if tier == 'quick' else ['chain2', 'indep+dep',
                                                 'fork', 'join']
    for i, shape in enumerate(shapes):
        specs.append({'prop': PROP, 'tier': tier, 'seed': seed,
                      'shard': 700 + i, 'mode': 'dfs', 'shape': shape,
                      'max_runs': 1200 if tier == 'quick' else 30000,
                      'hashseed': 1})
    specs[-nstress - 1 - len(shapes)]['mode'] = 'driver'
    specs[-nstress - 1 - len(shapes)]['lo'] = 0
    specs[-nstress - 1 - len(shapes)]['hi'] = 12 if tier == 'quick' else 200
    return specs


def gen_case(rng, tier):
    big = tier == 'thorough'
    ntasks = rng.choice([1, 2, 3, 4, 5, 6, 8] + ([12, 20] if big else []))
    case = H.gen_dag(rng, ntasks, p_hard=rng.choice([0.2, 0.35, 0.5]),
                     p_soft=rng.choice([0.0, 0.2, 0.4]))
    names = case['tasks']
    cyc = rng.random() < 0.25
    case['cyclic'] = None
    if cyc:
        kind = rng.choice(['self', 'two', 'back', 'soft'])
        first, last = sorted(names)[0], sorted(names)[-1]
        if kind == 'self' or len(names) == 1:
            vic = rng.choice(names)
            case['hard'].setdefault(vic, []).append(vic)
            kind = 'self'
        elif kind == 'two':
            one, two = rng.sample(names, 2)
            case['hard'].setdefault(one, []).append(two)
            case['hard'].setdefault(two, []).append(one)
        elif kind == 'back':
            # the last task depends (transitively or not) on the first: add
            # the back edge first -> last and the forward edge
            case['hard'].setdefault(last, []).append(first)
            case['hard'].setdefault(first, []).append(last)
        else:
            case['hard'].setdefault(last, []).append(first)
            case['soft'].setdefault(first, []).append(last)
        for dct in (case['hard'], case['soft']):
            for key in dct:
                dct[key] = sorted(set(dct[key]))
        case['cyclic'] = kind
    if not cyc and len(names) >= 2 and rng.random() < 0.1:
        nested_cyclic(rng, case)
    case['outcomes'] = H.gen_outcomes(rng, case, KINDS)
    case['workers'] = rng.choice([1, 2, 2, 3, 4, 8, 16])
    case['init'] = {}
    if rng.random() < 0.12:
        # task objects whose truth value is false
        case['falsy'] = rng.sample(names, rng.randint(1, min(2, len(names))))
    if rng.random() < 0.35:
        for name in rng.sample(names, rng.randint(1, len(names))):
            case['init'][name] = rng.choice(['DONE', 'DONE', 'FAILED',
                                             'SKIPPED'])
    return case


def nested_cyclic(rng, case):
    '''Turn `case` into a nested graph (sub-graphs used as nodes) that is
    cyclic at the level of the sub-graphs; some of the sub-graphs are empty.
    The call must still come back (return or raise).'''
    names = sorted(case['tasks'], key=lambda n: int(n[1:]))
    cut = rng.randint(1, len(names) - 1)
    groups = [names[:cut], names[cut:]]
    gof = {n: i for i, grp in enumerate(groups) for n in grp}
    case['hard'] = {n: [d for d in deps if gof[d] == gof[n]]
                    for n, deps in case['hard'].items()}
    case['soft'] = {}
    kind = rng.choice(['empty-self', 'empty-two', 'empty-shared',
                       'empty-in-cycle', 'groups-two', 'group-self'])
    ghard, gmembers, order = {}, {}, [0, 1]
    if kind == 'empty-self':
        groups.append([])
        ghard = {2: [2], 1: [rng.choice([0, 2])]}
        order = [0, 1, 2]
    elif kind == 'empty-two':
        groups += [[], []]
        ghard = {2: [3], 3: [2], 1: [0]}
        order = [0, 1, 2, 3]
    elif kind == 'empty-shared':
        # the same empty sub-graph inside two sub-graphs, one of which
        # depends on the other
        groups.append([])
        gmembers = {0: [2], 1: [2]}
        ghard = {1: [0]}
    elif kind == 'empty-in-cycle':
        groups.append([])
        ghard = {0: [2], 2: [1], 1: [0]}
        order = [0, 1, 2]
    elif kind == 'groups-two':
        ghard = {0: [1], 1: [0]}
    else:
        ghard = {0: [0]}
    rng.shuffle(order)
    case['groups'] = groups
    case['ghard'] = {str(k): v for k, v in ghard.items()}
    case['gmembers'] = {str(k): v for k, v in gmembers.items()}
    case['gorder'] = order
    case['cyclic'] = 'nested-' + kind


def case_class(case):
    kinds = sorted({k for k in case['outcomes'].values()
                    if k not in H.OK_KINDS})
    return (case.get('cyclic'), sorted(set(case['init'].values())), kinds)


def tag_of(case):
    kinds = {k for k in case['outcomes'].values()}
    tags = []
    if case.get('cyclic'):
        tags.append('cyclic')
    if any(v in ('FAILED', 'SKIPPED') for v in case['init'].values()):
        tags.append('initfailed')
    if kinds & set(H.NONFINAL_KINDS):
        tags.append('nonfinal')
    if kinds & set(H.MALFORMED_KINDS):
        tags.append('malformed')
    if case.get('_repeat'):
        tags.append('second-use')
    return '+'.join(tags) or 'plain'


def judge(res, case, rec, extra):
    where = dict(case=case, **extra)
    tag = tag_of(case)
    rec.count('outcome.' + str(res.outcome))
    if str(case.get('cyclic')).startswith('nested-'):
        rec.count('nested_cyclic_runs')
    if res.outcome == 'build-budget':
        rec.violation(f'scheduler-construction-does-not-terminate-{tag}',
                      f'building the Scheduler for the graph '
                      f'({case.get("cyclic")}) made {res.error}', where)
        return
    if res.outcome == 'deadlock':
        rec.violation(f'deadlock-{tag}', 'no runnable thread while some are '
                      f'unfinished: {res.deadlock}; worker deaths '
                      f'{res.deaths}', where)
        return
    rec.count('census_taken')
    if res.alive_at_return and not res.leaked:
        kind = res.outcome.split(':')[0]
        rec.violation(f'workers-still-running-when-schedule-{kind}-{tag}',
                      f'schedule() {res.outcome} ({res.error}) while '
                      f'{len(res.alive_at_return)} of its worker threads had '
                      f'not exited yet: {res.alive_at_return[:4]}', where)
    if res.leaked:
        kind = res.outcome.split(':')[0]
        rec.violation(f'workers-left-after-{kind}-{tag}',
                      f'schedule() {res.outcome} ({res.error}) and left '
                      f'{len(res.leaked)} worker threads behind: '
                      f'{res.leaked[:4]}', where)
    elif res.queue_left and res.queue_left[0]:
        rec.violation(f'queue-not-empty-{tag}', f'{res.queue_left[0]} items '
                      f'left in the work queue after schedule() '
                      f'{res.outcome}', where)
    elif res.queue_left and res.queue_left[1]:
        # nothing queued, but the queue still counts unfinished items: the
        # next join() on it (the next schedule() with this backend) blocks
        rec.violation(f'queue-counts-unfinished-items-{tag}',
                      f'{res.queue_left[1]} items taken from the work queue '
                      f'were never marked done after schedule() '
                      f'{res.outcome}', where)
    if res.deaths:
        rec.count('worker_threads_died')


def run_wide(spec, rec):
    '''More simultaneously ready tasks than any queue bound.'''
    seed = spec['seed']
    nwide = 2 if spec['tier'] == 'quick' else 12
    for widx in range(nwide):
        rng = core.rng_for(seed, PROP, 'wide', spec['shard'], widx)
        if widx == 0 and spec['shard'] == 0:
            # more than a thousand ready tasks for one worker
            case = H.gen_wide(rng, 1, per_worker=1030)
        else:
            case = H.gen_wide(rng, rng.choice([1, 2]))
        case['outcomes'] = {n: 'ok' for n in case['tasks']}
        case['init'] = {}
        case['cyclic'] = None
        res = H.run_controlled(case, C.RandomWalk(rng), max_steps=400000)
        rec.count('evaluations')
        rec.count('wide_runs')
        if res.outcome == 'lost':
            rec.count('engine_lost_control')
            continue
        rec.count('controlled_runs')
        judge(res, case, rec, {'engine': 'controlled',
                               'choices': res.choices[:50],
                               'wide': [seed, spec['shard'], widx]})


def run_random(spec, rec):
    tier, seed = spec['tier'], spec['seed']
    if spec['shard'] in (0, 1):
        run_wide(spec, rec)
    for idx in range(spec['lo'], spec['hi']):
        rng = core.rng_for(seed, PROP, 'case', idx)
        case = gen_case(rng, tier)
        if case['cyclic']:
            rec.count('cyclic_cases')
        if case['init']:
            rec.count('initial_env_cases')
        est = 40
        nsched = 4 if tier == 'quick' else 6
        for sidx in range(nsched):
            srng = core.rng_for(seed, PROP, 'sched', idx, sidx)
            strat = (C.RandomWalk(srng) if sidx % 2 == 0
                     else C.PCT(srng, 2 + sidx % 3, est))
            fine = None
            if sidx == nsched - 1:
                fine = (core.rng_for(seed, PROP, 'fine', idx), 0.08)
                rec.count('fine_grained_runs')
            repeat = 2 if (sidx == 1 and not case['cyclic']) else 1
            if repeat == 2:
                rec.count('scheduler_used_twice')
            then = None
            if sidx == 2 and (case['cyclic'] or case['init']) \
                    and not case.get('groups'):
                # whatever the first call did (it may have raised), the same
                # backend object must be usable for another, harmless graph
                rng2 = core.rng_for(seed, PROP, 'then', idx)
                # (over a part of the tasks, with other dependencies: what
                # the backend learnt about the first graph must not matter)
                part = rng2.sample(sorted(case['tasks']),
                                   rng2.randint(1, len(case['tasks'])))
                then = H.gen_dag_over(rng2, part,
                                      p_hard=rng2.choice([0.2, 0.5]),
                                      p_soft=0.2)
                then['outcomes'] = {n: 'ok' for n in then['tasks']}
                then['workers'] = case['workers']
                rec.count('backend_reused_after_the_first_call')
            res = H.run_controlled(dict(case), strat, fine=fine,
                                   repeat=repeat, then=then,
                                   then_always=True)
            if then is not None and res.first_error:
                rec.count('backend_reused_after_an_error')
            if fine is None and repeat == 1 and then is None:
                est = max(10, res.steps)
            rec.count('evaluations')
            if res.outcome == 'lost':
                rec.count('engine_lost_control')
                rec.note('lost', res.lost)
                continue
            rec.count('controlled_runs')
            rec.count('scheduling_points', res.steps)
            judge(res, dict(case, _repeat=repeat > 1 or then is not None),
                  rec, {'engine': 'controlled', 'choices': res.choices,
                        'repeat': repeat, 'then': then,
                        'hashseed': spec.get('hashseed', 0)})
            rec.seen((case_class(case), res.trace_hash))
        if idx == spec['lo']:
            rec.sample({'case': case, 'outcome': res.outcome,
                        'statuses': res.statuses})


def run_stress(spec, rec):
    seed = spec['seed']
    for idx in range(spec['lo'], spec['hi']):
        rng = core.rng_for(seed, PROP, 'stress', spec['shard'], idx)
        case = gen_case(rng, 'quick')
        case['workers'] = rng.choice([2, 3, 4, 8, 16])
        res = H.run_stress(case, rng, inject=rng.choice([0.0, 0.05, 0.2]))
        rec.count('evaluations')
        if res.outcome == 'lost':
            rec.count('stress_inconclusive')
            continue
        rec.count('stress_runs')
        judge(res, case, rec, {'engine': 'stress', 'stress_seed':
                               [seed, PROP, 'stress', spec['shard'], idx],
                               'hashseed': spec.get('hashseed', 0)})
        rec.seen(('stress', case_class(case), res.hist_hash))


DRIVER = r'''
import json, logging, sys, warnings
warnings.simplefilter('ignore'); logging.disable(logging.CRITICAL)
from vf.sched import harness as H
from valjean.cosette.scheduler import Scheduler
from valjean.cosette.backends.queue import QueueScheduling
case = json.load(open(sys.argv[1]))
mon = H.Monitor(); mon.new_run(case['outcomes'])
tasks, hard, soft = H.build(case, mon)
env = H.env_class()(); H.fill_init(env, case)
try:
    Scheduler(hard_graph=hard, soft_graph=soft,
              backend=QueueScheduling(n_workers=case['workers'])
              ).schedule(env=env)
    print('RETURNED', flush=True)
except Exception as err:
    print('RAISED', type(err).__name__, flush=True)
# falling off the end: the interpreter waits for non-daemon threads
'''


def run_driver(spec, rec):
    '''Child processes that only call schedule(): they must exit.'''
    seed = spec['seed']
    tmp = tempfile.mkdtemp(prefix='vf-c03-')
    drv = os.path.join(tmp, 'driver.py')
    with open(drv, 'w') as fil:
        fil.write(DRIVER)
    try:
        for idx in range(spec['lo'], spec['hi']):
            rng = core.rng_for(seed, PROP, 'driver', idx)
            case = gen_case(rng, 'quick')
            import json
            cfile = os.path.join(tmp, f'case{idx}.json')
            with open(cfile, 'w') as fil:
                json.dump(case, fil)
            rec.count('evaluations')
            try:
                out = subprocess.run([sys.executable, drv, cfile],
                                     capture_output=True, text=True,
                                     timeout=20, env=dict(os.environ),
                                     check=False)
            except subprocess.TimeoutExpired as err:
                said = (err.stdout or b'')
                said = said.decode() if isinstance(said, bytes) else said
                rec.count('driver_processes')
                came_back = 'RETURNED' in said or 'RAISED' in said
                # cross-check with the controlled engine on the same case
                res = H.run_controlled(case, C.RandomWalk(rng))
                if came_back and res.outcome not in ('deadlock',) \
                        and not res.leaked:
                    rec.count('driver_inconclusive')
                    continue
                tag = tag_of(case)
                what = ('came back but the process cannot exit' if came_back
                        else 'never came back')
                rec.violation(f'driver-process-hangs-{tag}',
                              f'schedule() {what} (stdout {said!r}); '
                              f'controlled engine: {res.outcome}, leaked '
                              f'{res.leaked[:3]}',
                              {'case': case, 'engine': 'driver'})
                continue
            rec.count('driver_processes')
            rec.count('driver_exited')
            rec.seen(('driver', case_class(case), out.stdout.strip()))
    finally:
        import shutil
        shutil.rmtree(tmp, ignore_errors=True)


def run_dfs(spec, rec):
    from vf.props.c01 import SHAPES
    base = SHAPES[spec['shape']]
    complete = True
    for workers in (1, 2):
        for kind in ('ok', 'raise', 'none', 'nonfinal_pending'):
            case = dict(base, workers=workers, init={}, cyclic=None,
                        outcomes={n: ('ok' if n != 'a' else kind)
                                  for n in base['tasks']})

            def once(strat, case=case):
                res = H.run_controlled(case, strat)
                rec.count('evaluations')
                if res.outcome == 'lost':
                    rec.count('engine_lost_control')
                    return
                rec.count('controlled_runs')
                rec.count('dfs_runs')
                judge(res, case, rec, {'engine': 'controlled',
                                       'choices': res.choices})
                rec.seen((case_class(case), res.trace_hash))
            runs, done = C.explore_dfs(once, max_preempt=2,
                                       max_runs=spec['max_runs'] // 8)
            complete = complete and done
            rec.note(f'dfs.{spec["shape"]}.w{workers}.{kind}',
                     {'runs': runs, 'complete': done})
    rec.exhaustive[f'schedules<=2preemptions:{spec["shape"]}'] = complete


def run(spec, rec):
    if spec['mode'] == 'dfs':
        run_dfs(spec, rec)
        for name in DECIDING:
            rec.count(name, 0)
        return
    {'random': run_random, 'stress': run_stress, 'driver': run_driver}[
        spec['mode']](spec, rec)


def replay(case, rec):
    rec.count('evaluations')
    cas = case['case']
    if case.get('engine') == 'stress':
        rng = core.rng_for(*case['stress_seed'])
        for _ in range(10):
            res = H.run_stress(cas, rng, inject=0.1)
            if res.outcome != 'lost':
                judge(res, cas, rec, {'engine': 'stress',
                                      'stress_seed': case['stress_seed']})
        return
    if case.get('engine') == 'driver':
        for sidx in range(20):
            res = H.run_controlled(cas, C.RandomWalk(core.rng_for(sidx)))
            judge(res, cas, rec, {'engine': 'controlled',
                                  'choices': res.choices})
        return
    res = H.run_controlled(cas, C.Replay(case['choices']),
                           repeat=case.get('repeat', 1),
                           then=case.get('then'), then_always=True)
    judge(res, cas, rec, {'engine': 'controlled',
                          'choices': case['choices'],
                          'repeat': case.get('repeat', 1)})
    rec.note('replayed', {'outcome': res.outcome, 'leaked': res.leaked})
