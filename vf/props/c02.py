'''C02 -- the outcome of a run depends on the graph and the task results only,
not on the schedule.

Monitor: per-task execution counters of the probe tasks and the final status
map of every run, compared with a 15-line sequential reference scheduler; every
(graph, outcomes) is executed under several controlled schedules and worker
counts, and in the stress layer.'''
from vf import core
from vf.sched import controller as C
from vf.sched import harness as H

PROP = 'C02'
LEVEL = 'exploration'
RULE = ('random DAGs of 2-8 (thorough 2-20) probe tasks with hard and soft '
        'edges, 0-4 tasks failing by raising / returning FAILED / returning '
        'None, a non-pair, a non-status or a non-mapping update; every case '
        'is executed under >= 8 controlled schedules over 3 worker counts '
        '(random walk and PCT) and a share in the stress layer; the status '
        'map and the execution counters of every run are compared with the '
        'sequential reference; distinct = distinct (case, schedule trace) '
        'with at least one failing task')
DECIDING = ['controlled_runs', 'status_maps_compared', 'executions_counted',
            'stress_runs', 'cases_with_skipped_tasks']
ASSUMPTIONS = ['tasks returning a non-final status (WAITING / PENDING / '
               'SKIPPED) are outside the statement and not generated here',
               'schedules are sampled']
SHARD_TIMEOUT = {'quick': 600, 'thorough': 3000}
KINDS = H.FAIL_KINDS + H.MALFORMED_KINDS


def plan(tier, seed):
    total = 2400 if tier == 'quick' else 20000
    specs = core.std_plan(PROP, tier, seed, quick=total, thorough=total,
                          mode='random')
    nstress = 4 if tier == 'quick' else 6
    for spec in specs[-nstress:]:
        spec['mode'] = 'stress'
        spec['lo'], spec['hi'] = 0, (10 if tier == 'quick' else 150)
    return specs


def gen_case(rng, tier):
    big = tier == 'thorough'
    ntasks = rng.choice([2, 3, 4, 5, 6, 8] + ([12, 20] if big else []))
    case = H.gen_dag(rng, ntasks, p_hard=rng.choice([0.2, 0.35, 0.5]),
                     p_soft=rng.choice([0.0, 0.2, 0.4]))
    if rng.random() < 0.2:
        case = H.nest(rng, case)
    case['outcomes'] = H.gen_outcomes(rng, case, KINDS)
    return case


def kinds_of(case):
    return sorted({k for k in case['outcomes'].values()
                   if k not in H.OK_KINDS})


def compare(res, case, rec, extra):
    '''Compare one run with the reference model.'''
    exp_status, exp_exec = H.reference(case)
    where = dict(case=case, **extra)
    kinds = kinds_of(case)
    mal = [k for k in kinds if k in H.MALFORMED_KINDS]
    tag = ('malformed' if mal else 'plain')
    if res.outcome != 'returned':
        rec.violation(f'run-did-not-return-{tag}',
                      f'schedule() ended with {res.outcome} '
                      f'({res.error or res.deadlock}); failing kinds {kinds}',
                      where)
        return
    rec.count('status_maps_compared')
    bad = {n: (res.statuses.get(n), exp_status[n]) for n in case['tasks']
           if res.statuses.get(n) != exp_status[n]}
    if bad:
        name = sorted(bad)[0]
        got, exp = bad[name]
        if got in ('WAITING', 'PENDING', 'ABSENT'):
            key = f'not-final-{tag}'
        else:
            key = f'status-{exp}-reported-{got}-{tag}'
        rec.violation(key, f'final statuses differ from the reference: '
                      f'{bad}; failing kinds {kinds}', where)
    for name in case['tasks']:
        got = res.exec_run.get(name, 0)
        rec.count('executions_counted', got)
        if got != exp_exec[name]:
            if got > 1:
                key = 'executed-more-than-once'
            elif exp_exec[name] == 0:
                key = 'skipped-task-executed'
            else:
                key = 'task-not-executed'
            rec.violation(key, f'{name} executed {got} times, expected '
                          f'{exp_exec[name]}', where)
    if 'SKIPPED' in exp_status.values():
        rec.count('runs_with_skipped_tasks')


def run_wide(spec, rec):
    '''More simultaneously ready tasks than any queue bound.'''
    seed = spec['seed']
    nwide = 2 if spec['tier'] == 'quick' else 12
    for widx in range(nwide):
        rng = core.rng_for(seed, PROP, 'wide', spec['shard'], widx)
        case = H.gen_wide(rng, rng.choice([1, 2]))
        case['outcomes'] = H.gen_outcomes(rng, case, KINDS, nfail=2)
        res = H.run_controlled(dict(case), C.RandomWalk(rng),
                               max_steps=400000)
        rec.count('evaluations')
        rec.count('wide_runs')
        if res.outcome == 'lost':
            rec.count('engine_lost_control')
            continue
        rec.count('controlled_runs')
        compare(res, dict(case), rec, {'engine': 'controlled',
                                       'choices': res.choices[:50],
                                       'wide': [seed, spec['shard'], widx]})


def run_random(spec, rec):
    tier, seed = spec['tier'], spec['seed']
    if spec['shard'] in (0, 1):
        run_wide(spec, rec)
    for idx in range(spec['lo'], spec['hi']):
        rng = core.rng_for(seed, PROP, 'case', idx)
        case = gen_case(rng, tier)
        exp_status, _ = H.reference(case)
        if 'SKIPPED' in exp_status.values():
            rec.count('cases_with_skipped_tasks')
        if any(case['outcomes'][d] != 'ok' and case['outcomes'][d] != 'ok_none'
               for n, deps in case['soft'].items() for d in deps):
            rec.count('cases_with_failed_soft_dependency')
        maps = set()
        workers = rng.sample([1, 2, 3, 4, 8, 16], 3)
        est = 40
        nsched = 9 if tier == 'quick' else 12
        for sidx in range(nsched):
            case['workers'] = workers[sidx % 3]
            srng = core.rng_for(seed, PROP, 'sched', idx, sidx)
            strat = (C.RandomWalk(srng) if sidx % 3 == 0
                     else C.PCT(srng, 2 + sidx % 3, est))
            fine = None
            if sidx == nsched - 1:
                fine = (core.rng_for(seed, PROP, 'fine', idx), 0.08)
                rec.count('fine_grained_runs')
            then = None
            if sidx == 1 and not case.get('groups'):
                # the same backend and the same task objects are then used
                # for another graph over the same tasks
                rng2 = core.rng_for(seed, PROP, 'then', idx)
                then = H.gen_dag(rng2, len(case['tasks']),
                                 p_hard=rng2.choice([0.2, 0.5]),
                                 p_soft=rng2.choice([0.0, 0.3]))
                then['outcomes'] = H.gen_outcomes(rng2, then, KINDS)
                then['workers'] = case['workers']
                rec.count('backend_reused_for_another_graph')
            debug_log = sidx == 0 and idx % 3 == 0
            if debug_log:
                rec.count('runs_with_debug_logging')
            res = H.run_controlled(dict(case), strat, fine=fine, then=then,
                                   debug_log=debug_log)
            if then is not None and res.outcome == 'returned':
                # the first run is judged too
                first = H.Result()
                first.outcome = 'returned'
                first.statuses = res.first_statuses
                first.exec_run = res.first_exec
                compare(first, dict(case), rec,
                        {'engine': 'controlled', 'choices': res.choices,
                         'workers': case['workers'], 'part': 'first'})
            if fine is None and then is None:
                est = max(10, res.steps)
            rec.count('evaluations')
            if res.outcome == 'lost':
                rec.count('engine_lost_control')
                rec.note('lost', res.lost)
                continue
            rec.count('controlled_runs')
            extra = {'engine': 'controlled', 'choices': res.choices,
                     'workers': case['workers'],
                     'hashseed': spec.get('hashseed', 0)}
            if then is not None:
                extra['then'] = then
                compare(res, dict(then), rec, extra)
                continue
            compare(res, dict(case), rec, extra)
            maps.add(tuple(sorted(res.statuses.items())))
            if kinds_of(case):
                rec.seen((idx, res.trace_hash))
        rec.maxi('max_distinct_status_maps_per_case', len(maps))
        if idx == spec['lo']:
            rec.sample({'case': case, 'statuses': res.statuses})


def run_stress(spec, rec):
    seed = spec['seed']
    for idx in range(spec['lo'], spec['hi']):
        rng = core.rng_for(seed, PROP, 'stress', spec['shard'], idx)
        case = gen_case(rng, 'quick')
        case['workers'] = rng.choice([2, 3, 4, 8, 16])
        res = H.run_stress(case, rng, inject=rng.choice([0.0, 0.05, 0.2]))
        rec.count('evaluations')
        if res.outcome == 'lost':
            rec.count('stress_inconclusive')
            continue
        rec.count('stress_runs')
        extra = {'engine': 'stress', 'stress_seed':
                 [seed, PROP, 'stress', spec['shard'], idx],
                 'hashseed': spec.get('hashseed', 0)}
        compare(res, case, rec, extra)
        if kinds_of(case):
            rec.seen(('stress', idx, res.hist_hash))


def run(spec, rec):
    {'random': run_random, 'stress': run_stress}[spec['mode']](spec, rec)


def replay(case, rec):
    rec.count('evaluations')
    cas = dict(case['case'])
    if 'workers' in case:
        cas['workers'] = case['workers']
    if case.get('engine') == 'stress':
        rng = core.rng_for(*case['stress_seed'])
        for _ in range(20):
            res = H.run_stress(cas, rng, inject=0.1)
            if res.outcome != 'lost':
                compare(res, cas, rec, {'engine': 'stress',
                                        'stress_seed': case['stress_seed']})
        return
    res = H.run_controlled(cas, C.Replay(case['choices']),
                           then=case.get('then'))
    compare(res, case.get('then') or cas, rec,
            {'engine': 'controlled', 'choices': case['choices']})
    rec.note('replayed', {'outcome': res.outcome, 'statuses': res.statuses})
