'''Generator of test results of every kind that has a built-in representation
(shared by the rendering monitor C12 and the observer-effect monitor C13).'''
from collections import OrderedDict

import numpy as np

KINDS = ['equal', 'approx', 'student', 'bonferroni', 'holm', 'metadata',
         'stats_tasks', 'stats_tests', 'stats_labels', 'failed']
SHAPES = [(), (1,), (2,), (3,), (5,), (2, 3), (3, 2), (2, 1, 3), (1, 4),
          (2, 2, 2), (4, 1)]
NAMES = ['ref', 'calc', 'run_2', 'T4 v11', 'a.b-c']


def datasets(rng, shape, nds, fail, nan=False, plain_dims=False,
             decreasing=False, infinite=False):
    '''A reference and `nds` datasets of the given shape; `fail` chooses the
    failing pattern per dataset: 'none', 'one', 'first', 'last', 'all',
    'random'.  Values are unique 5-digit numbers so that a table cell
    identifies its bin.  Returns (ref, [datasets], [expected failing mask]).'''
    from valjean.eponine.dataset import Dataset
    size = int(np.prod(shape, dtype=int)) if shape else 1
    bins = OrderedDict()
    for i, dim in enumerate(shape):
        name = ['e', 't', 'mu', 'x'][i]
        if rng.random() < 0.5:
            bins[name] = np.arange(dim + 1) * 1.5 + 10 * i
            if dim >= 2 and rng.random() < 0.25:
                # first / last bin much wider than its neighbour (as the
                # energy grids of real listings: 1e-11 ... 20 MeV)
                bins[name][0] = -1e6
                if rng.random() < 0.5:
                    bins[name][-1] = 1e7
        else:
            bins[name] = np.arange(dim) * 2.0 + 0.25 + 10 * i
    if decreasing:
        # bins listed from the highest to the lowest (legal for a Dataset;
        # some spectra are printed that way); every dataset gets its own
        # arrays
        for name in list(bins):
            if len(bins[name]) >= 3 and rng.random() < 0.6:
                bins[name] = bins[name][::-1].copy()
    base = (np.arange(size, dtype=float) * 1.25 + 1.5).reshape(shape)
    if infinite and size > 1:
        # an infinite value, the same in every dataset (inf == inf)
        base.reshape(-1)[rng.randrange(size)] = rng.choice([np.inf, -np.inf])
    err = np.full(shape, 0.125)
    if not shape:
        base, err = np.float64(base), np.float64(err)
    names = rng.sample(NAMES, nds + 1)
    fortran = len(shape) >= 2 and rng.random() < 0.3
    if fortran:
        # the same numbers in another memory layout
        base, err = np.asfortranarray(base), np.asfortranarray(err)
    # single precision data (all the numbers used are exactly representable)
    f32 = rng.random() < 0.12
    if f32:
        base, err = np.asarray(base).astype(np.float32)[()], \
            np.asarray(err).astype(np.float32)[()]
    ref = Dataset(base, err, bins=bins, name=names[0], what='flux')
    dsets, masks = [], []
    for k in range(nds):
        pattern = fail if isinstance(fail, str) else fail[k]
        mask = np.zeros(size, dtype=bool)
        if pattern == 'one':
            mask[rng.randrange(size)] = True
        elif pattern == 'first':
            mask[0] = True
        elif pattern == 'last':
            mask[-1] = True
        elif pattern == 'all':
            mask[:] = True
        elif pattern == 'random':
            for i in range(size):
                mask[i] = rng.random() < 0.4
        val = np.array(base, dtype=float, copy=True).reshape(-1)
        val[mask] += 100.0 + 10 * k
        if nan and size > 1 and rng.random() < 0.5:
            pos = rng.randrange(size)
            val[pos] = np.nan
            mask[pos] = True
        val = val.reshape(shape)
        derr = np.full(shape, 0.25 + 0.125 * k)
        if fortran:
            val, derr = np.asfortranarray(val), np.asfortranarray(derr)
        if not shape:
            val, derr = np.float64(val), np.float64(derr)
        if f32:
            val, derr = np.asarray(val).astype(np.float32)[()], \
                np.asarray(derr).astype(np.float32)[()]
        dsets.append(Dataset(val, derr, bins=(
            OrderedDict((key, arr.copy()) for key, arr in bins.items())
            if decreasing else bins), name=names[k + 1], what='flux'))
        masks.append(mask.reshape(shape))
    return ref, dsets, masks


MARKUP_NAMES = ['n<%d>', 'a`b%d', 'back\\slash%d', 'x>y%d', '*star%d*']


def inner_results(rng, num, all_ok=False, labels=True, exotic=False):
    from valjean.gavroche.test import TestEqual
    out = []
    for i in range(num):
        ref, dss, _ = datasets(rng, (3,), 1,
                               'none' if all_ok or rng.random() < 0.6
                               else 'one')
        labs = {}
        if labels:
            for lab, vals in (('x', 'ab'), ('y', 'cd'), ('z', 'ef')):
                if rng.random() < 0.85:
                    labs[lab] = rng.choice(vals)
        name = f'inner{i}'
        if exotic and rng.random() < 0.2:
            # names holding characters that mean something in rst
            name = rng.choice(MARKUP_NAMES) % i
        out.append(TestEqual(ref, *dss, name=name, labels=labs).evaluate())
    return out


def task_results(rng, style, exotic=False):
    '''[(task name, {'status': ..., 'result': [...]})] for the statistics
    tests.  `style`: 'all_ok' | 'mixed' | 'none_ok'.'''
    from valjean.cosette.task import TaskStatus
    ntasks = rng.randint(1, 5)
    out = []
    for i in range(ntasks):
        if style == 'all_ok':
            status = TaskStatus.DONE
        elif style == 'none_ok':
            status = rng.choice([TaskStatus.FAILED, TaskStatus.SKIPPED,
                                 TaskStatus.WAITING, TaskStatus.PENDING])
        else:
            status = rng.choice(list(TaskStatus) + [TaskStatus.DONE] * 2)
        entry = {'status': status}
        if rng.random() < 0.8:
            entry['result'] = inner_results(rng, rng.randint(0, 3),
                                            all_ok=(style == 'all_ok'),
                                            exotic=exotic)
            if style == 'none_ok':
                from valjean.gavroche.test import TestEqual
                ref, dss, _ = datasets(rng, (2,), 1, 'all')
                entry['result'] = [TestEqual(
                    ref, *dss, name=f'ko{i}', labels={'x': 'a', 'y': 'c',
                                                      'z': 'e'}).evaluate()]
        tname = f'task{i}'
        if exotic and rng.random() < 0.2:
            tname = rng.choice(MARKUP_NAMES) % i
        out.append((tname, entry))
    return out


def external_result(rng):
    '''Result of a TestExternal holding user-made templates (text, table and
    plots whose edge bins may be much wider than their neighbours).'''
    from valjean.javert.templates import (PlotTemplate, SubPlotElements,
                                          CurveElements, TextTemplate,
                                          TableTemplate)
    from valjean.javert.test_external import TestExternal
    temps = []
    for _ in range(rng.randint(1, 3)):
        what = rng.choice(['plot', 'plot', 'text', 'table'])
        if what == 'text':
            temps.append(TextTemplate('User text.\n\n'))
        elif what == 'table':
            temps.append(TableTemplate(np.arange(3.0), np.arange(3.0) * 2,
                                       headers=['x', 'y']))
        else:
            num = rng.randint(3, 6)
            style = rng.choice(['regular', 'wide', 'wide'])
            bins = np.arange(num + 1, dtype=float)
            if style == 'wide':
                bins[0] = rng.choice([-1e6, 1e-11 - 1])
                bins[-1] = rng.choice([1e6, 2e4])
            curve = CurveElements(values=np.arange(1.0, num + 1),
                                  bins=[bins], legend='user curve')
            splt = SubPlotElements(curves=[curve], axnames=('e', 'flux'))
            if rng.random() < 0.5:
                splt.attributes.limits = [(0.0, float(num))]
            temps.append(PlotTemplate(subplots=[splt]))
    return TestExternal(*temps, name='ext', success=rng.random() < 0.7
                        ).evaluate()


def gen_result(rng, kind=None, shape=None, plot_safe=False, exotic=False):
    '''Returns a dictionary: kind, result, shape, nds, masks (expected failing
    bins per dataset for the dataset comparisons), desc.'''
    # pylint: disable=too-many-locals,too-many-branches,too-many-statements
    from valjean.gavroche.test import (TestEqual, TestApproxEqual,
                                       TestResultFailed)
    from valjean.gavroche.stat_tests.student import TestStudent
    from valjean.gavroche.stat_tests.bonferroni import (TestBonferroni,
                                                       TestHolmBonferroni)
    from valjean.gavroche.diagnostics.metadata import TestMetadata
    from valjean.gavroche.diagnostics import stats as vst
    kind = kind or rng.choice(KINDS)
    if kind == 'external':
        return {'kind': kind, 'shape': (), 'nds': 0, 'fail': [],
                'masks': None, 'result': external_result(rng)}
    shapes = SHAPES if not plot_safe else [s for s in SHAPES if 1 not in s
                                           and s != ()]
    shape = tuple(shape) if shape is not None else rng.choice(shapes)
    nds = rng.choice([1, 1, 2, 3])
    fail = [rng.choice(['none', 'none', 'one', 'first', 'last', 'all',
                        'random']) for _ in range(nds)]
    out = {'kind': kind, 'shape': shape, 'nds': nds, 'fail': fail,
           'masks': None}
    if kind in ('equal', 'approx', 'student', 'bonferroni', 'holm',
                'failed'):
        nan = kind in ('equal', 'approx', 'student', 'bonferroni',
                       'holm') and rng.random() < 0.15
        decreasing = exotic and rng.random() < 0.15
        infinite = exotic and rng.random() < 0.1
        ref, dss, masks = datasets(rng, shape, nds, fail, nan=nan,
                                   decreasing=decreasing, infinite=infinite)
        out['infinite_values'] = infinite
        out['masks'] = masks
        out['nan'] = nan
        out['decreasing_bins'] = decreasing
        if kind == 'equal':
            res = TestEqual(ref, *dss, name='eq').evaluate()
        elif kind == 'approx':
            res = TestApproxEqual(ref, *dss, name='ap').evaluate()
        elif kind == 'student':
            res = TestStudent(ref, *dss, name='st', alpha=rng.choice(
                [0.01, 0.05]), ndf=rng.choice([None, 10, 1000])).evaluate()
            if exotic and rng.random() < 0.2:
                # a result built without p-values (they are optional)
                from valjean.gavroche.stat_tests.student import \
                    TestResultStudent
                res = TestResultStudent(res.test, res.tstud)
                out['no_pvalue'] = True
        elif kind == 'bonferroni':
            res = TestBonferroni(test=TestStudent(ref, *dss, name='st'),
                                 name='bo', alpha=0.05).evaluate()
        elif kind == 'holm':
            res = TestHolmBonferroni(test=TestStudent(ref, *dss, name='st'),
                                     name='hb', alpha=0.05).evaluate()
        else:
            res = TestResultFailed(TestEqual(ref, *dss, name='eq'),
                                   rng.choice(['some message',
                                               'ValueError: wrong shape',
                                               'two\nlines']))
    elif kind == 'metadata':
        nsamp = rng.randint(2, 4)
        keys = rng.sample(['k', 'j', 'name', 'zone', 'flag'],
                          rng.randint(1, 4))
        bad = set(rng.sample(keys, rng.choice([0, 0, 1, len(keys)])))
        dmd = {}
        for i in range(nsamp):
            dmd[f's{i}'] = {key: (f'v_{key}' if key not in bad or i == 0
                                  else rng.choice([f'w_{key}_{i}',
                                                   f'v_{key} ',
                                                   f' v_{key}']))
                            for key in keys}
        if rng.random() < 0.2:          # a key missing in one sample
            del dmd[f's{nsamp - 1}'][keys[0]]
            bad.add(keys[0])
        out['bad_keys'] = sorted(bad)
        res = TestMetadata(dmd, name='md').evaluate()
    else:
        style = rng.choice(['all_ok', 'mixed', 'mixed', 'none_ok'])
        trs = task_results(rng, style, exotic)
        out['style'] = style
        if kind == 'stats_tasks':
            res = vst.TestStatsTasks(name='tk', task_results=trs).evaluate()
        elif kind == 'stats_tests':
            res = vst.TestStatsTests(name='ts', task_results=trs).evaluate()
        else:
            nlab = rng.randint(1, 3)
            by_labels = tuple(rng.sample(['x', 'y', 'z'], nlab))
            if exotic and rng.random() < 0.5:
                by_labels = list(by_labels)     # a list is accepted too
            out['by_labels'] = by_labels
            try:
                res = vst.TestStatsTestsByLabels(
                    name='bl', task_results=trs,
                    by_labels=by_labels).evaluate()
            except vst.TestStatsTestsByLabelsException:
                return gen_result(rng, kind, shape, plot_safe, exotic)
    out['result'] = res
    return out
